#!/venv/bin/python
"""Self-test of the known-findings mechanism (DESIGN 3.9) on a scratch copy with defect D2 re-introduced:
 (1) without a findings file entry the check reports VIOLATION and exits 1;
 (2) with an *open* entry that matches structurally (oracle + exception class) it prints KNOWN-FINDING and exits 0;
 (3) with an open entry for a *different* signature the violation is still reported (exit 1);
 (4) a *fixed* entry suppresses nothing (exit 1).
"""
import json
import os
import shutil
import subprocess
import sys
import tempfile

HERE = os.path.dirname(os.path.abspath(__file__))
VERIF = os.path.dirname(HERE)
sys.path.insert(0, HERE)
from mutants import M  # noqa: E402
from sensitivity import make_copy  # noqa: E402

PY = "/venv/bin/python"


def run(repo, findings, pid="C16", runs="1500"):
    f = tempfile.NamedTemporaryFile("w", suffix=".json", delete=False, dir="/dev/shm")
    json.dump({"findings": findings}, f)
    f.close()
    try:
        r = subprocess.run([PY, os.path.join(VERIF, "check.py"), pid, "--no-evidence", "--runs", runs], capture_output=True, text=True,
                           env=dict(os.environ, VERIF_REPO=repo, VERIF_FINDINGS=f.name, PYTHONHASHSEED="0"))
    finally:
        os.unlink(f.name)
    return r.returncode, r.stdout


def main():
    m = [x for x in M if x["id"] == "d2_revert_deque_check"][0]
    d = make_copy(m)
    bad = 0
    # the open findings of the committed file (F1) are genuine on every tree: every case below lists them too
    OPEN = [f for f in json.load(open(os.path.join(VERIF, "known_findings.json")))["findings"] if f.get("status") == "open"]
    clean = make_copy()
    try:
        for name, findings, want_rc, want_text in [
            ("unchanged tree, committed open findings: reported as KNOWN-FINDING, exit 0", OPEN, 0, "KNOWN-FINDING: property=C16 F1"),
            ("unchanged tree, F1 not listed: it is a violation", [], 1, "rule_evaluation_hits_the_recursion_limit"),
            ("C13, unchanged tree, committed open findings: KNOWN-FINDING F2, exit 0", OPEN, 0, "KNOWN-FINDING: property=C13 F2"),
            ("C13, unchanged tree, F2 not listed: it is a violation", [], 1, "copy_raised"),
        ]:
            rc, out = run(clean, findings, *(("C13", "3200") if name.startswith("C13") else ()))
            ok = rc == want_rc and want_text in out and (want_rc == 1 or "VIOLATION" not in out)
            bad += not ok
            print(f"{'ok  ' if ok else 'FAIL'} {name}: rc={rc}")
            if not ok:
                print(out[-800:])
    finally:
        shutil.rmtree(clean, ignore_errors=True)
    try:
        sig = {"oracle": "internal_error_on_rule_text", "details": {"exception": "TypeError", "phase": "load"}}
        cases = [
            ("no entry", [], 1, "VIOLATION property=C16"),
            ("matching open entry (rule path only): the document path is a different violation, still reported",
             [{"status": "open", "property": "C16", "signature": sig, "what": "D2 antecedent ending in 'is' or a hedge raises TypeError"}], 1, "KNOWN-FINDING: property=C16"),
            ("matching open entries for all three call sites",
             [{"status": "open", "property": "C16", "signature": sig, "what": "D2 antecedent ending in 'is' or a hedge raises TypeError"},
              {"status": "open", "property": "C16", "signature": {"oracle": "internal_error_on_document", "details": {"exception": "TypeError", "site": "rule.py:load"}},
               "what": "D2 reached through FllImporter"},
              {"status": "open", "property": "C16", "signature": {"oracle": "internal_error_on_rule_text", "details": {
                  "exception": "TypeError", "message": "unsupported operand type(s) for &: 'collections.deque' and 'int'"}},
               "what": "D2 reached through Rule.create / FllImporter.rule (the other public entry points for rule text)"}], 0, "KNOWN-FINDING: property=C16"),
            ("open entry, other signature", [{"status": "open", "property": "C16", "signature": {"oracle": "internal_error_on_rule_text", "details": {"exception": "IndexError"}}, "what": "x"}], 1, "VIOLATION property=C16"),
            ("fixed entry", [{"status": "fixed", "property": "C16", "commit": "abc", "what": "fixed: ..."}], 1, "VIOLATION property=C16"),
        ]
        for name, findings, want_rc, want_text in cases:
            rc, out = run(d, findings + OPEN)
            ok = rc == want_rc and want_text in out and (want_rc == 1 or "VIOLATION" not in out)
            bad += not ok
            print(f"{'ok  ' if ok else 'FAIL'} {name}: rc={rc}")
            if not ok:
                print(out[-800:])
    finally:
        shutil.rmtree(d, ignore_errors=True)
        shutil.rmtree(os.path.join(VERIF, "out", "replays", "C16"), ignore_errors=True)
    print("known-findings:", "ok" if not bad else f"{bad} problems")
    return 1 if bad else 0


if __name__ == "__main__":
    sys.exit(main())
