#!/venv/bin/python
"""Determinism self-test: the batch digest (SHA-256 over every run's event-log digest, in run order) must
be identical across: a repeated run, PYTHONHASHSEED 0 / 12345 / random, 1 vs 16 workers, and one run per
forked process vs many runs sharing a process (state leaking between runs through fl.settings, the lazily
created FactoryManager, warnings filters, numpy error state would show up here).

usage: determinism.py [--runs N] [--seeds 0,1,2] [pids...]
"""
import argparse
import os
import re
import subprocess
import sys

HERE = os.path.dirname(os.path.dirname(os.path.abspath(__file__)))
PY = "/venv/bin/python"


def digest(pid, seed, runs, hashseed, workers, chunk):
    env = dict(os.environ)
    if hashseed is None:
        env.pop("PYTHONHASHSEED", None)
        env["PYTHONHASHSEED"] = "random"
    else:
        env["PYTHONHASHSEED"] = str(hashseed)
    cmd = [PY, os.path.join(HERE, "check.py"), pid, "--seed", str(seed), "--runs", str(runs), "--no-evidence",
           "--workers", str(workers)] + (["--chunk", str(chunk)] if chunk else [])
    r = subprocess.run(cmd, capture_output=True, text=True, env=env)
    m = re.search(r"evaluations=(\d+) .* digest=(\w+)", r.stdout)
    if r.returncode != 0 or not m:
        return f"rc={r.returncode}:{r.stdout[-200:]}{r.stderr[-200:]}"
    return m.group(1) + ":" + m.group(2)


def main():
    ap = argparse.ArgumentParser()
    ap.add_argument("pids", nargs="*")
    ap.add_argument("--runs", type=int, default=200)
    ap.add_argument("--seeds", default="0,1,2")
    a = ap.parse_args()
    pids = a.pids or ["C02", "C12", "C13", "C16", "C20"]
    bad = 0
    for pid in pids:
        for seed in [int(s) for s in a.seeds.split(",")]:
            configs = {
                "base(hash0,w16)": (0, 16, None),
                "repeat": (0, 16, None),
                "hash12345": (12345, 16, None),
                "hash-random": (None, 16, None),
                "workers1": (0, 1, None),
                "workers5": (0, 5, None),
                "alone(chunk1)": (0, 16, 1),
                "shared(chunk200)": (0, 4, 200),
            }
            got = {k: digest(pid, seed, a.runs, *v) for k, v in configs.items()}
            ok = len(set(got.values())) == 1
            bad += not ok
            print(f"{'ok  ' if ok else 'DIVERGED'} {pid} seed={seed} runs={a.runs} {got['base(hash0,w16)']}")
            if not ok:
                for k, v in got.items():
                    print(f"     {k:<18} {v}")
    print("determinism:", "all identical" if not bad else f"{bad} divergences")
    return 1 if bad else 0


if __name__ == "__main__":
    sys.exit(main())
