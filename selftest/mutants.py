"""Realistic mutants used by the sensitivity self-test: (id, property, file, old, new, note).

Each is an exact-substring replacement in a scratch copy of /repo/fuzzylite (never in /repo).
`expect` lists the properties whose quick check must report a violation.
"""
M = []


def mut(id, pids, file, old, new, note=""):
    M.append({"id": id, "pids": pids if isinstance(pids, list) else [pids], "file": file, "old": old, "new": new, "note": note})


# ---------------------------------------------------------------- C20
_CTX_TAIL = '''        try:
            yield
        finally:
            for key, value in context_settings.items():
                setattr(self, key, rollback_settings[key])
'''
mut("c20_except_exception", "C20", "library.py", _CTX_TAIL, '''        try:
            yield
        except Exception:
            for key, value in context_settings.items():
                setattr(self, key, rollback_settings[key])
            raise
        else:
            for key, value in context_settings.items():
                setattr(self, key, rollback_settings[key])
''', "restore only for Exception subclasses: KeyboardInterrupt/SystemExit/BaseException leave settings changed")
mut("c20_rollback_all", "C20", "library.py", _CTX_TAIL, '''        try:
            yield
        finally:
            for key, value in rollback_settings.items():
                setattr(self, key, value)
''', "rolls back settings not named in the context (direct assignment inside is lost)")
mut("c20_snapshot_late", "C20", "library.py", '''        rollback_settings = vars(self).copy()
        for key, value in context_settings.items():
            setattr(self, key, value)
''', '''        for key, value in context_settings.items():
            setattr(self, key, value)
        rollback_settings = vars(self).copy()
''', "snapshot taken after the new values are set")
mut("c20_no_finally", "C20", "library.py", _CTX_TAIL, '''        yield
        for key, value in context_settings.items():
            setattr(self, key, rollback_settings[key])
''', "rollback on normal exit only")
mut("c20_falsy", "C20", "library.py", 'if not (key == "self" or value is None)', 'if not (key == "self" or not value)',
    "falsy values (decimals=0, atol=0.0, alias='') ignored")
mut("c20_fm_not_restored", "C20", "library.py", _CTX_TAIL, '''        try:
            yield
        finally:
            for key, value in context_settings.items():
                if not key.startswith("_"):
                    setattr(self, key, rollback_settings[key])
''', "factory manager not restored")
