"""Realistic mutants used by the sensitivity self-test: (id, property, file, old, new, note).

Each is an exact-substring replacement in a scratch copy of /repo/fuzzylite (never in /repo).
`expect` lists the properties whose quick check must report a violation.
"""
M = []


def mut(id, pids, file, old, new, note="", extra=None, benign=False, needle=0):
    """extra: optional list of further (old, new) replacements in the same file.
    benign=True marks a behaviour-preserving control: the check must stay silent on it.
    needle=N marks a mutant whose trigger is rare by nature: the quick check is tried on seeds 0..N-1 until it reports."""
    M.append({"id": id, "pids": pids if isinstance(pids, list) else [pids], "file": file, "old": old, "new": new, "note": note,
              "extra": extra or [], "benign": benign, "needle": needle})


# ---------------------------------------------------------------- C20
_CTX_TAIL = '''        try:
            yield
        finally:
            for key, value in context_settings.items():
                setattr(self, key, rollback_settings[key])
'''
mut("c20_except_exception", "C20", "library.py", _CTX_TAIL, '''        try:
            yield
        except Exception:
            for key, value in context_settings.items():
                setattr(self, key, rollback_settings[key])
            raise
        else:
            for key, value in context_settings.items():
                setattr(self, key, rollback_settings[key])
''', "restore only for Exception subclasses: KeyboardInterrupt/SystemExit/BaseException leave settings changed")
mut("c20_rollback_all", "C20", "library.py", _CTX_TAIL, '''        try:
            yield
        finally:
            for key, value in rollback_settings.items():
                setattr(self, key, value)
''', "rolls back settings not named in the context (direct assignment inside is lost)")
mut("c20_snapshot_late", "C20", "library.py", '''        rollback_settings = vars(self).copy()
        for key, value in context_settings.items():
            setattr(self, key, value)
''', '''        for key, value in context_settings.items():
            setattr(self, key, value)
        rollback_settings = vars(self).copy()
''', "snapshot taken after the new values are set")
mut("c20_no_finally", "C20", "library.py", _CTX_TAIL, '''        yield
        for key, value in context_settings.items():
            setattr(self, key, rollback_settings[key])
''', "rollback on normal exit only")
mut("c20_falsy", "C20", "library.py", 'if not (key == "self" or value is None)', 'if not (key == "self" or not value)',
    "falsy values (decimals=0, atol=0.0, alias='') ignored")
mut("c20_fm_not_restored", "C20", "library.py", _CTX_TAIL, '''        try:
            yield
        finally:
            for key, value in context_settings.items():
                if not key.startswith("_"):
                    setattr(self, key, rollback_settings[key])
''', "factory manager not restored")

# ---------------------------------------------------------------- C12
_DEFUZZ_CALL = '''        value = np.array(self.defuzzifier.defuzzify(self.fuzzy, self.minimum, self.maximum))

        # previous value is the last element of the value at t (nan if the value at t is an empty batch)
        self.previous_value = np.take(self.value, -1).astype(float) if np.size(self.value) else nan
'''
mut("c12_prev_before_defuzz", "C12", "variable.py", _DEFUZZ_CALL, '''        # previous value is the last element of the value at t
        self.previous_value = np.take(self.value, -1).astype(float) if np.size(self.value) else nan
        value = np.array(self.defuzzifier.defuzzify(self.fuzzy, self.minimum, self.maximum))
''', "previous_value overwritten before a defuzzifier that may raise (fault-only detectable)")
mut("c12_prev_from_first", "C12", "variable.py", "self.previous_value = np.take(self.value, -1).astype(float) if",
    "self.previous_value = np.take(self.value, 0).astype(float) if", "previous value from the first row of the last batch")
mut("c12_commit_no_clip", "C12", "variable.py", '''        # Committing the value
        self.value = value
''', '''        # Committing the value
        self._value = value
''', "commit bypasses the clipping setter")
mut("c12_fill_from_nan", "C12", "variable.py", '''                previous_value = self.previous_value
                for value_i in iterator:''', '''                previous_value = nan
                for value_i in iterator:''', "fill-forward does not start from the previous call's value")
mut("c12_no_carry_in_batch", "C12", "variable.py", '''                    else:
                        previous_value = value_i  # type: ignore
''', '''                    else:
                        pass
''', "fill-forward uses the previous call's value only (no carry inside a batch)")
mut("c12_clear_keeps_prev", "C12", "variable.py", '''        self.fuzzy.clear()
        self.previous_value = nan
        self.value = nan
''', '''        self.fuzzy.clear()
        self.value = nan
''', "clear() keeps previous_value")
mut("c12_disabled_defuzzified", "C12", "variable.py", '''        if not self.enabled:
            return

        if not self.defuzzifier:''', '''        if not self.defuzzifier:''', "disabled variable is defuzzified")
mut("c12_fuzzy_cleared", "C12", "variable.py", '''        # Committing the value
        self.value = value
''', '''        # Committing the value
        self.value = value
        self.fuzzy.clear()
''', "defuzzify clears the fuzzy output after a *successful* defuzzification: C12 speaks about the fuzzy output only when defuzzification raises, so this is a must-stay-silent control for C12", benign=True)
mut("c12_default_first", "C12", "variable.py", '''        # Locking previous values
        if self.lock_previous:''', '''        if not np.isnan(self.default_value):
            value[np.isnan(value)] = self.default_value  # type: ignore
        # Locking previous values
        if self.lock_previous:''', "default applied before lock-previous")
mut("c12_clip_before_default", "C12", "variable.py", '''        # Applying default values
        if not np.isnan(self.default_value):''', '''        if self.lock_range:
            value = np.clip(value, self.minimum, self.maximum)
            self._value = None
        # Applying default values
        if not np.isnan(self.default_value):''', "clip before default, commit unclipped default")

# ---------------------------------------------------------------- reverts of the three fix: commits (the original defects)
mut("d1_revert_numpy_scalar", ["C02", "C12"], "variable.py",
    "value = np.array(self.defuzzifier.defuzzify(self.fuzzy, self.minimum, self.maximum))",
    "value = self.defuzzifier.defuzzify(self.fuzzy, self.minimum, self.maximum)",
    "defect D1 as found at the pinned commit")
mut("d3_revert_builtin_min_max", "C02", "factory.py",
    "np.minimum,  # element-wise minimum of two operands (scalars or arrays)",
    "min,", "defect D3 as found at the pinned commit (min only)")

# ---------------------------------------------------------------- C02
mut("c02_no_transpose", "C02", "term.py", "            np.atleast_2d(self.degree).T,\n", "            np.atleast_2d(self.degree),\n",
    "Activated.membership broadcasts degrees along the wrong axis")
mut("c02_setter_reversed", "C02", "engine.py", "            v.value = values[:, i]\n", "            v.value = values[:, -1 - i] if values.shape[0] > 1 else values[:, i]\n",
    "matrix setter assigns the columns in reverse for real batches")
mut("c02_lom_global_max", "C02", "defuzzifier.py",
    "        y_max = (y > 0) & (y == y.max(axis=1, keepdims=True))\n        lom = np.where(y_max, x, np.nan)",
    "        y_max = (y > 0) & (y == y.max())\n        lom = np.where(y_max, x, np.nan)",
    "LargestOfMaximum uses the maximum over the whole batch")
mut("c02_rectangle_scalar_path", "C02", "term.py",
    "        y = self.height * np.where(np.isnan(x), np.nan, 1.0) * ((s <= x) & (x <= e))\n        return y",
    "        if x.ndim == 0:\n            return scalar(self.height if s <= x < e else (np.nan if np.isnan(x) else 0.0))\n"
    "        y = self.height * np.where(np.isnan(x), np.nan, 1.0) * ((s <= x) & (x <= e))\n        return y",
    "a scalar fast path whose boundary operator differs from the array path (x == end)")
mut("c02_no_carry_in_batch", ["C02", "C12"], "variable.py", '''                    else:
                        previous_value = value_i  # type: ignore
''', '''                    else:
                        pass
''', "fill-forward uses the previous call's value only (no carry inside a batch)")
mut("c02_default_only_first", "C02", "variable.py", "            value[np.isnan(value)] = self.default_value  # type: ignore",
    "            value[np.isnan(value) & (np.arange(value.size).reshape(value.shape) == 0)] = self.default_value  # type: ignore",
    "default value substituted in the first row of a batch only")
mut("c02_weighted_sum_axis", "C02", "defuzzifier.py", "        y = (weighted_sum / weights).squeeze()  # type: ignore\n        return y",
    "        y = (weighted_sum / np.max(weights)).squeeze()  # type: ignore\n        return y",
    "WeightedAverage normalises by the largest weight of the batch")

# ---------------------------------------------------------------- C13
mut("c13_clear_first_output_only", "C13", "engine.py", '''        for variable in self.output_variables:
            variable.fuzzy.clear()

        for block in self.rule_blocks:''', '''        for variable in self.output_variables[:1]:
            variable.fuzzy.clear()

        for block in self.rule_blocks:''', "process() clears only the first output's fuzzy set")
mut("c13_restart_keeps_prev", ["C13", "C12"], "variable.py", '''        self.fuzzy.clear()
        self.previous_value = nan
        self.value = nan
''', '''        self.fuzzy.clear()
        self.value = nan
''', "clear()/restart() keeps previous_value")
mut("c13_restart_no_reload", "C13", "engine.py", '''        for rule_block in self.rule_blocks:
            rule_block.reload_rules(self)

        for output_variable in self.output_variables:
            output_variable.clear()''', '''        for output_variable in self.output_variables:
            output_variable.clear()''', "restart() does not reload the rules")
mut("c13_shallow_copy", "C13", "engine.py", "        engine = copy.deepcopy(self)\n", "        engine = copy.copy(self)\n", "copy() is shallow")
mut("c13_linear_keeps_engine", "C13", "term.py", '''    def update_reference(self, engine: Engine | None) -> None:
        """Set the reference to the engine.

        Args:
            engine: engine with the input variables
        """
        self.engine = engine
''', '''    def update_reference(self, engine: Engine | None) -> None:
        """Set the reference to the engine.

        Args:
            engine: engine with the input variables
        """
        self.engine = engine

    def __deepcopy__(self, memo):  # type: ignore
        result = Linear(self.name, list(self.coefficients), self.engine)
        memo[id(self)] = result
        return result
''', "deep copy of a Linear term keeps the reference to the original engine")
mut("c13_shared_default_terms", "C13", "term.py", "        self.terms = list(terms or [])\n\n    def __repr__(self) -> str:\n        \"\"\"Return the code to construct the term in Python.\n\n        Returns:\n            code to construct the term in Python.\n        \"\"\"\n        fields = vars(self).copy()\n        fields.pop(\"height\")\n        return representation.as_constructor(self, fields)\n\n    def parameters(self) -> str:\n        \"\"\"Return the space-separated parameters of the term.\n\n        Returns:\n            `aggregation minimum maximum terms`",
    "        self.terms = list(terms) if terms else _NO_TERMS\n\n    def __repr__(self) -> str:\n        \"\"\"Return the code to construct the term in Python.\n\n        Returns:\n            code to construct the term in Python.\n        \"\"\"\n        fields = vars(self).copy()\n        fields.pop(\"height\")\n        return representation.as_constructor(self, fields)\n\n    def parameters(self) -> str:\n        \"\"\"Return the space-separated parameters of the term.\n\n        Returns:\n            `aggregation minimum maximum terms`",
    "Aggregated() shares one module-level empty list between all fuzzy outputs",
    extra=[("class Activated(Term):", "_NO_TERMS: list = []\n\n\nclass Activated(Term):")])
mut("c13_clear_forgets_fuzzy", "C13", "variable.py", '''        self.fuzzy.clear()
        self.previous_value = nan
        self.value = nan
''', '''        self.previous_value = nan
        self.value = nan
''', "OutputVariable.clear() forgets the fuzzy output")
mut("c13_rule_cache", "C13", "rule.py", '''        self.deactivate()
        self.antecedent.load(engine)
        self.consequent.load(engine)
''', '''        self.deactivate()
        key = (self.antecedent.text, self.consequent.text, engine.name)
        cached = _RULE_CACHE.get(key)
        if cached is not None:
            self.antecedent.expression, self.consequent.conclusions = cached[0], list(cached[1])
            return
        self.antecedent.load(engine)
        self.consequent.load(engine)
        _RULE_CACHE[key] = (self.antecedent.expression, list(self.consequent.conclusions))
''', "Rule.load caches the parsed expression per rule text in a module dict",
    extra=[("class Expression(ABC):", "_RULE_CACHE: dict = {}\n\n\nclass Expression(ABC):")])
mut("c13_memo_inputs", "C13", "engine.py", '''        for variable in self.output_variables:
            variable.fuzzy.clear()

        for block in self.rule_blocks:''', '''        key = tuple(np.asarray(v.value, dtype=float).tobytes() for v in self.input_variables)
        if getattr(self, "_last_inputs", None) == key:
            return
        self._last_inputs = key
        for variable in self.output_variables:
            variable.fuzzy.clear()

        for block in self.rule_blocks:''', "process() is skipped when the inputs equal those of the previous step (ignores edits, clear and restart in between)")

# ---------------------------------------------------------------- C16
mut("d2_revert_deque_check", "C16", "rule.py", "            if state & (s_hedge | s_term):\n                raise SyntaxError(f\"expected hedge or term, but found '{token}'\")\n\n        if len(stack) != 1:",
    "            if stack & (s_hedge | s_term):\n                raise SyntaxError(f\"expected hedge or term, but found '{token}'\")\n\n        if len(stack) != 1:",
    "defect D2 as found at the pinned commit")
mut("c16_antecedent_no_unload", "C16", "rule.py", '''        self.unload()
        if not self.text:
            raise SyntaxError("expected the antecedent of a rule, but found none")

        postfix = Function.infix_to_postfix(self.text)''', '''        if not self.text:
            raise SyntaxError("expected the antecedent of a rule, but found none")

        postfix = Function.infix_to_postfix(self.text)''', "Antecedent.load without the leading unload(): a failed load keeps the old tree")
mut("c16_consequent_appends_directly", "C16", "rule.py", '''                    proposition = Proposition(variable)
                    conclusions.append(proposition)
                    state = s_is
                    continue

            if state & s_is and Rule.IS == token:''', '''                    proposition = Proposition(variable)
                    conclusions.append(proposition)
                    self.conclusions = conclusions
                    state = s_is
                    continue

            if state & s_is and Rule.IS == token:''', "Consequent.load publishes the conclusions before the text is fully checked")
mut("c16_consequent_first", "C16", "rule.py", '''        self.deactivate()
        self.antecedent.load(engine)
        self.consequent.load(engine)
''', '''        self.deactivate()
        self.consequent.load(engine)
        self.antecedent.load(engine)
''', "Rule.load loads the consequent first: behaviour-preserving control, must NOT be reported", benign=True)
mut("c16_parse_ignores_trailing", "C16", "rule.py", '''            elif state == s_end:
                raise SyntaxError(f"unexpected token '{token}' in rule '{text}'")''', '''            elif state == s_end:
                break''', "Rule.parse ignores tokens after the weight")
mut("c16_consequent_no_final_check", "C16", "rule.py", '''            if state & (s_hedge | s_term):
                raise SyntaxError(f"consequent expected hedge or term after '{token}' ")
''', '''            if state & (s_hedge | s_term):
                conclusions.pop()
''', "final-state check of Consequent.load drops the unfinished conclusion instead of rejecting")
mut("c16_importer_swallows_rule_errors", "C16", "importer.py", '''        return Rule.create(self.extract_value(fll, "rule"), engine)
''', '''        try:
            return Rule.create(self.extract_value(fll, "rule"), engine)
        except SyntaxError:
            return Rule.create(self.extract_value(fll, "rule"))
''', "FllImporter keeps a rule that fails to load as an unloaded rule")
mut("c16_parse_partial_assignment", "C16", "rule.py", '''        self.antecedent.text = " ".join(antecedent)
        self.consequent.text = " ".join(consequent)
        self.weight = weight
''', '''        self.weight = weight
        self.antecedent.text = " ".join(antecedent)
        self.consequent.text = " ".join(consequent)
''', "behaviour-preserving reorder (control): must NOT be reported", benign=True)

# ---------------------------------------------------------------- oracle-liveness mutants (one per otherwise untriggered oracle)
mut("c13_discrete_shares_values", "C13", "term.py", '''    def membership(self, x: Scalar) -> Scalar:
        r"""Compute the membership function value of $x$.

        The function uses binary search to find the lower and upper bounds of $x$ and then linearly''', '''    def __deepcopy__(self, memo):  # type: ignore
        result = Discrete(self.name, None, self.height)
        result.values = self.values  # "immutable" data: no need to copy
        memo[id(self)] = result
        return result

    def membership(self, x: Scalar) -> Scalar:
        r"""Compute the membership function value of $x$.

        The function uses binary search to find the lower and upper bounds of $x$ and then linearly''',
    "deep copy of a Discrete term shares the xy array with the original (in-place edit of the copy changes the original)")
mut("c12_failure_wrapped", "C12", "variable.py",
    "        value = np.array(self.defuzzifier.defuzzify(self.fuzzy, self.minimum, self.maximum))\n",
    "        try:\n            value = np.array(self.defuzzifier.defuzzify(self.fuzzy, self.minimum, self.maximum))\n"
    "        except Exception as ex:\n            raise RuntimeError(f\"defuzzification of '{self.name}' failed\") from ex\n",
    "defuzzifier exceptions are wrapped: the original exception object no longer propagates, state is intact - C12 does not "
    "forbid that, so this is a behaviour-preserving control for C12: must NOT be reported", benign=True)
mut("c16_parse_sets_weight_early", "C16", "rule.py", '''            elif state == s_with:
                weight = float(token)
                state = s_end''', '''            elif state == s_with:
                weight = self.weight = float(token)
                state = s_end''', "Rule.parse commits the weight before the rest of the text is validated (trailing token => rule changed by a rejected assignment)")
mut("c16_load_rules_swallows", "C16", "rule.py", '''        if exceptions:
            raise RuntimeError("failed to load the following rules:\\n" + "\\n".join(exceptions))''', '''        if exceptions:
            settings.logger.error("failed to load the following rules:\\n" + "\\n".join(exceptions))''',
    "RuleBlock.load_rules logs instead of raising")
mut("c16_load_rules_stops_at_first", "C16", "rule.py", '''            except Exception as ex:
                exceptions.append(f"['{str(rule)}']: {str(ex)}")
        if exceptions:''', '''            except Exception as ex:
                exceptions.append(f"['{str(rule)}']: {str(ex)}")
                break
        if exceptions:''', "RuleBlock.load_rules stops at the first bad rule: later good rules stay unloaded")
mut("c13_copy_mutates_source", "C13", "engine.py", "        engine = copy.deepcopy(self)\n        return engine", "        engine = copy.deepcopy(self)\n        for v in self.output_variables:\n            v.fuzzy.clear()\n        return engine",
    "copy() clears the source's fuzzy outputs")
mut("c02_batch_squeezes_to_scalar_list", "C02", "defuzzifier.py", "        z = ((x * y).sum(axis=1) / y.sum(axis=1)).squeeze()\n        return z  # type: ignore",
    "        z = ((x * y).sum(axis=1) / y.sum(axis=1)).squeeze()\n        return z[:-1] if z.ndim == 1 and z.size > 2 else z  # type: ignore",
    "Centroid drops the last row of batches of 3 or more")
mut("c02_output_matrix_row_stack", "C02", "engine.py", '''        result = np.column_stack(np.broadcast_arrays(*values)) if values else np.array(values)
        return result

    @property
    def values(self)''', '''        result = np.column_stack(np.broadcast_arrays(*values)) if values else np.array(values)
        return result[::-1] if result.shape[0] > 2 else result

    @property
    def values(self)''', "Engine.output_values returns the rows of batches of 3 or more in reverse order")
mut("d5_revert_resolution1", "C02", "defuzzifier.py", '''        x = np.atleast_2d(Op.midpoints(minimum, maximum, self.resolution))
        y = np.atleast_2d(term.membership(x))
        if x.shape[1] == 1:
            # single sample (resolution=1): the squeezed memberships of a batch are rows, not samples
            y = y.reshape(-1, 1)
        z = ((x * y).sum(axis=1) / y.sum(axis=1)).squeeze()''', '''        x = np.atleast_2d(Op.midpoints(minimum, maximum, self.resolution))
        y = np.atleast_2d(term.membership(x))
        z = ((x * y).sum(axis=1) / y.sum(axis=1)).squeeze()''', "defect D5 (Centroid only) as found at the pinned commit")
mut("d6_revert_constant_dtype", "C02", "term.py", "        y = np.full_like(x, fill_value=self.value, dtype=settings.float_type)\n        return y",
    "        y = np.full_like(x, fill_value=self.value)\n        return y", "defect D6 as found at the pinned commit")
mut("d4_revert_output_values", "C02", "engine.py", "        result = np.column_stack(np.broadcast_arrays(*values)) if values else np.array(values)\n        return result\n\n    @property\n    def values(self)",
    "        result = np.column_stack(values) if values else np.array(values)\n        return result\n\n    @property\n    def values(self)", "defect D4 as found at the pinned commit")
mut("d7_revert_hedge_pow", "C02", "hedge.py", "        y = np.where(x <= 0.5, 2 * np.square(x), 1 - 2 * np.square(1 - x))",
    "        y = np.where(x <= 0.5, 2 * x**2, 1 - 2 * (1 - x) ** 2)",
    "defect D7 (Extremely only) as found at the pinned commit: a needle (about one quick run in three shows it), expected to be caught by the thorough tier or a seed sweep rather than by every quick run (measured after round 10: 1 quick seed in 12 to 24)", needle=12)
mut("d8_revert_function_scalar", "C02", "term.py", '        engine_variables["x"] = scalar(x)\n', '        engine_variables["x"] = x\n',
    "defect D8 (the x argument only) as found at the pinned commit")
mut("c20_debugging_global_logger", "C20", "library.py", "        return self.logger.level == logging.DEBUG\n",
    '        return logging.getLogger("fuzzylite").level == logging.DEBUG\n',
    "debug mode read from the default logger instead of the logger in force (a context that swaps the logger is not observed)")
mut("c20_consequent_standard_hedges", "C20", "rule.py",
    "                factory = settings.factory_manager.hedge\n                if token in factory:\n                    hedge = factory.construct(token)\n"
    "                    proposition.hedges.append(hedge)  # type: ignore\n                    state = s_hedge | s_term\n",
    "                from .factory import HedgeFactory\n\n                factory = HedgeFactory()\n                if token in factory:\n                    hedge = factory.construct(token)\n"
    "                    proposition.hedges.append(hedge)  # type: ignore\n                    state = s_hedge | s_term\n",
    "consequent hedges looked up in a fresh standard factory instead of the factory manager in force")
mut("d9_revert_empty_batch", "C13", "variable.py", "        self.previous_value = np.take(self.value, -1).astype(float) if np.size(self.value) else nan\n",
    "        self.previous_value = np.take(self.value, -1).astype(float)\n", "defect D9 as found at the pinned commit")
mut("d10_revert_nditer_zerosize", "C12", "variable.py", '            with np.nditer(value, flags=["zerosize_ok"], op_flags=[["readwrite"]]) as iterator:\n',
    '            with np.nditer(value, op_flags=[["readwrite"]]) as iterator:\n', "defect D10 as found at the pinned commit")
