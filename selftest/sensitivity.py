#!/venv/bin/python
"""Sensitivity self-test: every mutant must be reported by the quick check of its property, and the
same check on an unpatched scratch copy must pass.  Scratch copies live under /dev/shm and are removed.

usage: sensitivity.py [--only ID_SUBSTR] [--pid Cxx] [--runs N] [--tests]  (--tests also runs the pinned suite on the mutant)
"""
from __future__ import annotations

import argparse
import os
import shutil
import subprocess
import sys
import tempfile

HERE = os.path.dirname(os.path.abspath(__file__))
VERIF = os.path.dirname(HERE)
sys.path.insert(0, HERE)
from mutants import M  # noqa: E402

PY = "/venv/bin/python"


def make_copy(mutant=None) -> str:
    d = tempfile.mkdtemp(prefix="verif-mut-", dir="/dev/shm")
    # from /repo's HEAD (not the working tree): a seeded patch applied to /repo meanwhile must not leak in
    ar = subprocess.run(["git", "-C", "/repo", "archive", "HEAD", "fuzzylite"], capture_output=True, check=True)
    subprocess.run(["tar", "-x", "-C", d], input=ar.stdout, check=True)
    if mutant:
        p = os.path.join(d, "fuzzylite", mutant["file"])
        s = open(p).read()
        if s.count(mutant["old"]) != 1:
            shutil.rmtree(d)
            raise SystemExit(f"mutant {mutant['id']}: pattern occurs {s.count(mutant['old'])} times in {mutant['file']}")
        s = s.replace(mutant["old"], mutant["new"])
        for o, n in mutant.get("extra", []):
            assert s.count(o) == 1, (mutant["id"], o)
            s = s.replace(o, n)
        open(p, "w").write(s)
    return d


def run_check(pid: str, repo: str, runs: int | None, seed: int = 0) -> tuple[int, str]:
    cmd = [PY, os.path.join(VERIF, "check.py"), pid, "--no-evidence", "--seed", str(seed)]
    if runs:
        cmd += ["--runs", str(runs)]
    env = dict(os.environ, VERIF_REPO=repo, PYTHONHASHSEED="0")
    r = subprocess.run(cmd, env=env, capture_output=True, text=True, timeout=900)
    return r.returncode, r.stdout + r.stderr


def run_tests(repo: str) -> str:
    t = os.path.join(repo, "tests")
    if not os.path.exists(t):
        ar = subprocess.run(["git", "-C", "/repo", "archive", "HEAD", "tests", "pyproject.toml", "README.md"], capture_output=True, check=True)
        subprocess.run(["tar", "-x", "-C", repo], input=ar.stdout, check=True)
    r = subprocess.run([PY, "-m", "pytest", "-q", "-x", "-p", "no:cacheprovider", "--timeout=900",
                        "--deselect", "tests/test_benchmark.py::TestBenchmark::test_measure",
                        "--deselect", "tests/test_exporter.py::TestPythonExporter::test_object", "tests"],
                       cwd=repo, env=dict(os.environ, PYTHONPATH=repo), capture_output=True, text=True, timeout=1800)
    return r.stdout.strip().splitlines()[-1] if r.stdout.strip() else f"rc={r.returncode}"


def main() -> int:
    ap = argparse.ArgumentParser()
    ap.add_argument("--only")
    ap.add_argument("--pid")
    ap.add_argument("--runs", type=int)
    ap.add_argument("--tests", action="store_true")
    a = ap.parse_args()
    muts = [m for m in M if (not a.only or a.only in m["id"]) and (not a.pid or a.pid in m["pids"])]
    pids = sorted({p for m in muts for p in m["pids"]})
    bad = 0
    clean = make_copy()
    try:
        for pid in pids:
            rc, out = run_check(pid, clean, a.runs)
            ok = rc == 0
            bad += not ok
            print(f"{'ok  ' if ok else 'FAIL'} clean-copy {pid} rc={rc}")
            if not ok:
                print(out[-1500:])
    finally:
        shutil.rmtree(clean, ignore_errors=True)
    for m in muts:
        d = make_copy(m)
        try:
            for pid in m["pids"]:
                rc, out = run_check(pid, d, a.runs)
                tried = 1
                while rc == 0 and tried < m.get("needle", 0):
                    rc, out = run_check(pid, d, a.runs, seed=tried)
                    tried += 1
                if m.get("benign"):
                    ok = rc == 0
                    bad += not ok
                    print(f"{'ok  ' if ok else 'FALSE-ALARM'} {m['id']:<34} {pid} rc={rc} (benign control)")
                    if not ok:
                        print("   " + out.strip()[-600:].replace("\n", "\n   "))
                    continue
                caught = rc == 1 and "VIOLATION property=" + pid in out
                bad += not caught
                oracle = ""
                for line in out.splitlines():
                    if line.startswith("VIOLATION"):
                        oracle = line.rsplit("-", 1)[-1].replace(".json", "")
                        break
                if caught:  # the minimised replay file must reproduce in a fresh process
                    path = [l for l in out.splitlines() if l.startswith("VIOLATION")][0].split("replay=")[1].strip()
                    r = subprocess.run([PY, os.path.join(VERIF, "check.py"), pid, "--replay", path],
                                       env=dict(os.environ, VERIF_REPO=d, PYTHONHASHSEED="7"), capture_output=True, text=True, timeout=300)
                    if r.returncode != 1 or "reproduced" not in r.stdout:
                        caught = False
                        bad += 1
                        out += "\nREPLAY FAILED: " + r.stdout[-400:] + r.stderr[-400:]
                    os.unlink(path)
                tests = run_tests(d) if a.tests else ""
                print(f"{'ok  ' if caught else 'MISS'} {m['id']:<34} {pid} rc={rc} oracle={oracle} {tests}" + (f" (needle: seed {tried - 1})" if m.get("needle") else ""))
                if not caught:
                    print("   " + out.strip()[-600:].replace("\n", "\n   "))
        finally:
            shutil.rmtree(d, ignore_errors=True)
    print("sensitivity:", "all caught" if not bad else f"{bad} problems")
    return 1 if bad else 0


if __name__ == "__main__":
    sys.exit(main())
