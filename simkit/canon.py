"""Canonical serialisation of floats / arrays / engine state.

Nothing in the harness ever compares raw Python lists of floats (NaN != NaN would make that a
false-alarm generator); everything goes through `fx` / `cv`.
"""
from __future__ import annotations

import math
from typing import Any

import numpy as np


def fx(x: Any) -> str:
    """Canonical text of one float: NaN == NaN, -0.0 == 0.0 (numerically equal; no property here is about
    the sign of zero, and np.clip(-0.0, 0.0, hi) legitimately returns +0.0), exact otherwise."""
    if np.size(x) != 1:
        # not one float (an empty or a many-valued array where a single value is expected): a text of its own, never equal
        # to the text of a float - the caller's comparison reports it
        return f"<{np.size(x)} values: " + ",".join(fx(v) for v in np.asarray(x, dtype=float).ravel()[:4]) + ">"
    x = float(np.asarray(x, dtype=float).reshape(()))
    if x != x:
        return "nan"
    if x == 0.0:
        return "0x0.0p+0"
    return x.hex()


def cv(value: Any) -> tuple[str, ...]:
    """Canonical tuple of a scalar / 0-d / n-d float value (ravelled)."""
    a = np.asarray(value, dtype=float).ravel()
    return tuple(fx(v) for v in a)


def cs(value: Any) -> tuple[str, ...]:
    """Canonical tuple of a str / array-of-str value."""
    a = np.asarray(value).ravel()
    return tuple(str(v) for v in a)


def fenc(x: Any) -> Any:
    """Float -> JSON-safe (finite floats as numbers, which round-trip exactly through repr)."""
    x = float(x)
    if math.isnan(x):
        return "nan"
    if math.isinf(x):
        return "inf" if x > 0 else "-inf"
    return x


def fdec(v: Any) -> float:
    return float(v)


def jsonable(o: Any) -> Any:
    """Make any nested structure strict-JSON safe (for evidence files)."""
    if isinstance(o, dict):
        return {str(k): jsonable(v) for k, v in o.items()}
    if isinstance(o, (list, tuple)):
        return [jsonable(v) for v in o]
    if isinstance(o, (np.floating, float)):
        return fenc(o)
    if isinstance(o, (np.integer,)):
        return int(o)
    if isinstance(o, np.ndarray):
        return jsonable(o.tolist())
    if isinstance(o, (str, int, bool)) or o is None:
        return o
    return repr(o)


def bcast(t: tuple[str, ...], n: int) -> tuple[str, ...]:
    """A size-1 value stands for every row of an n-row segment (NumPy broadcasting)."""
    if len(t) == 1 and n != 1:
        return t * n
    return t


def close_enough(a: tuple[str, ...], b: tuple[str, ...], rel: float) -> bool:
    """Exact equality of canonical tuples, or (rel > 0) relative closeness elementwise."""
    if a == b:
        return True
    if rel <= 0 or len(a) != len(b):
        return False
    for s, t in zip(a, b):
        if s == t:
            continue
        if s == "nan" or t == "nan":
            return False
        x, y = float.fromhex(s), float.fromhex(t)
        if math.isinf(x) or math.isinf(y):
            return False
        if abs(x - y) > rel * max(abs(x), abs(y), 1e-300):
            return False
    return True


def attrs(o) -> dict:
    """Instance attributes of an object, however its class stores them: __dict__ and / or __slots__ (a tree under test may
    have moved a class to __slots__; the harness must still see its state)."""
    out = dict(getattr(o, "__dict__", {}) or {})
    for klass in type(o).__mro__:
        slots = klass.__dict__.get("__slots__", ())
        for name in ((slots,) if isinstance(slots, str) else slots):
            if name in ("__dict__", "__weakref__") or name in out:
                continue
            try:
                out[name] = getattr(o, name)
            except AttributeError:
                pass
    return out
