"""Known findings: committed file, never written at run time.

Entries: {"status": "open", "property", "signature": {"oracle", "details": {...}}, "what"}
      or {"status": "fixed", "property", "commit", "what"}   (suppresses nothing)
"""
from __future__ import annotations

import json
import os

from .env import VERIF

# VERIF_FINDINGS is for the self-test of this mechanism only; registered commands never set it
PATH = os.environ.get("VERIF_FINDINGS") or os.path.join(VERIF, "known_findings.json")


def load() -> list[dict]:
    if not os.path.exists(PATH):
        return []
    with open(PATH) as f:
        return json.load(f).get("findings", [])


def match(pid: str, violation: dict, findings: list[dict]) -> dict | None:
    for f in findings:
        if f.get("status") != "open" or f.get("property") != pid:
            continue
        sig = f.get("signature", {})
        if sig.get("oracle") != violation.get("oracle"):
            continue
        det = violation.get("details", {})
        if all(det.get(k) == v for k, v in sig.get("details", {}).items()):
            return f
    return None
