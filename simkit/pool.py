"""Run driver: fork workers, execute run indices, shrink violations, merge results in index order."""
from __future__ import annotations

import concurrent.futures as cf
import faulthandler
import hashlib
import json
import multiprocessing as mp
import os
import signal
import sys
import time
import traceback

from . import env, findings
from .canon import jsonable
from .core import HarnessTimeout, Sim, Stats
from .rng import run_rng
from .shrink import shrink

RUN_WALL_S = 20
_SIM: Sim | None = None
_STOP = None
_FINDINGS: list[dict] = []


def _alarm(signum, frame):  # noqa: ARG001
    raise HarnessTimeout()


def _sig_hash(sig: str) -> int:
    return int.from_bytes(hashlib.blake2b(sig.encode(), digest_size=8).digest(), "big")


def _work(job: tuple[int, str, int, int, bool]) -> dict:
    seed, tier, start, stop, do_shrink = job
    sim = _SIM
    assert sim is not None
    signal.signal(signal.SIGALRM, _alarm)
    res = {
        "start": start, "stop": stop, "stats": Stats(), "sigs": set(), "samples": [],
        "violations": [], "known": [], "errors": [], "timeouts": 0, "evals": 0, "digests": [],
    }
    seen_oracles: set[str] = set()
    for run in range(start, stop):
        if _STOP is not None and _STOP.is_set():
            res["stop"] = run
            break
        rng = run_rng(seed, sim.pid, run)
        try:
            faulthandler.dump_traceback_later(RUN_WALL_S * 6, exit=True)
            for case_no, trace in enumerate(sim.cases(rng, run, tier)):
                trace.setdefault("property", sim.pid)
                trace["seed"], trace["run"], trace["case"] = seed, run, case_no
                env.reset_settings()
                signal.alarm(RUN_WALL_S)
                try:
                    out = sim.execute(trace)
                finally:
                    signal.alarm(0)
                res["evals"] += 1
                res["stats"].update(out.stats)
                res["digests"].append((run, case_no, out.digest))
                if out.nontrivial:
                    res["sigs"].add(_sig_hash(out.signature))
                if len(res["samples"]) < 1 and out.nontrivial:
                    res["samples"].append(trace)
                if out.violation:
                    v = out.violation
                    known = findings.match(sim.pid, v, _FINDINGS)
                    if known is not None:
                        res["known"].append(known["what"])
                        continue
                    if v["oracle"] in seen_oracles:
                        res["stats"].hit("violations_unshrunk")
                        continue
                    seen_oracles.add(v["oracle"])
                    small, execs = (trace, 0)
                    if do_shrink:
                        signal.alarm(RUN_WALL_S * 4)
                        try:
                            small, execs = shrink(sim, trace, v["oracle"])
                        finally:
                            signal.alarm(0)
                    env.reset_settings()
                    out2 = sim.execute(small)
                    v2 = out2.violation or v
                    res["violations"].append({
                        "property": sim.pid, "seed": seed, "run": run, "case": case_no,
                        "trace": small, "shrink_execs": execs,
                        "original_ops": len(trace.get("ops", [])),
                        "expect": {"oracle": v2["oracle"], "op": v2["op"], "digest": out2.digest},
                        "violation": jsonable(v2),
                    })
        except HarnessTimeout:
            res["timeouts"] += 1
        except Exception:
            res["errors"].append(f"run={run}: " + traceback.format_exc(limit=8))
        finally:
            faulthandler.cancel_dump_traceback_later()
            signal.alarm(0)
    env.reset_settings()
    return res


def run_batch(sim: Sim, tier: str, seed: int, runs: int | None = None, workers: int | None = None,
              budget_s: float | None = None, do_shrink: bool = True, stop_on_violation: bool = True,
              write_evidence: bool = True, quiet: bool = False) -> int:
    global _SIM, _STOP, _FINDINGS
    t0 = time.monotonic()
    n_runs, budget = sim.tiers[tier]
    if runs is not None:
        n_runs = runs
    if budget_s is not None:
        budget = budget_s
    workers = workers or min(16, os.cpu_count() or 1)
    _SIM = sim
    _FINDINGS = findings.load()
    ctx = mp.get_context("fork")
    _STOP = ctx.Event()
    chunk = max(1, min(sim.chunk, (n_runs + workers - 1) // workers))
    jobs = [(seed, tier, s, min(s + chunk, n_runs), do_shrink) for s in range(0, n_runs, chunk)]
    results: list[dict] = []
    broken = None
    if workers == 1:
        for job in jobs:
            if time.monotonic() - t0 > budget:
                break
            r = _work(job)
            results.append(r)
            if r["violations"] and stop_on_violation:
                break
    else:
        with cf.ProcessPoolExecutor(max_workers=workers, mp_context=ctx) as ex:
            pending: dict = {}
            it = iter(jobs)
            exhausted = False
            try:
                while True:
                    while not exhausted and len(pending) < workers * 2 and not _STOP.is_set():
                        if time.monotonic() - t0 > budget:
                            exhausted = True
                            break
                        job = next(it, None)
                        if job is None:
                            exhausted = True
                            break
                        pending[ex.submit(_work, job)] = job
                    if not pending:
                        break
                    done, _ = cf.wait(list(pending), timeout=RUN_WALL_S * 10, return_when=cf.FIRST_COMPLETED)
                    if not done:
                        broken = "no worker progress within %ds" % (RUN_WALL_S * 10)
                        break
                    for fut in done:
                        pending.pop(fut)
                        r = fut.result()
                        results.append(r)
                        if r["violations"] and stop_on_violation:
                            _STOP.set()
            except cf.process.BrokenProcessPool as e:
                broken = f"worker died: {e}"
            if broken:
                for p in list(getattr(ex, "_processes", {}).values()):
                    try:
                        p.kill()
                    except Exception:
                        pass
    results.sort(key=lambda r: r["start"])
    stats = Stats()
    sigs: set[int] = set()
    samples: list[dict] = []
    violations: list[dict] = []
    known: dict[str, int] = {}
    errors: list[str] = []
    timeouts = 0
    evals = 0
    runs_done = 0
    dh = hashlib.sha256()
    for r in results:
        stats.update(r["stats"])
        sigs |= r["sigs"]
        if len(samples) < 3:
            samples.extend(r["samples"][: 3 - len(samples)])
        violations.extend(r["violations"])
        for w in r["known"]:
            known[w] = known.get(w, 0) + 1
        errors.extend(r["errors"])
        timeouts += r["timeouts"]
        evals += r["evals"]
        runs_done += r["stop"] - r["start"]
        for d in r["digests"]:
            dh.update(repr(d).encode())
    wall = time.monotonic() - t0
    batch_digest = dh.hexdigest()[:24]

    # report
    replay_dir = os.path.join(env.VERIF, "out", "replays", sim.pid)
    reported: list[str] = []
    seen: set[str] = set()
    for v in violations:
        o = v["expect"]["oracle"]
        if o in seen:
            continue
        seen.add(o)
        os.makedirs(replay_dir, exist_ok=True)
        path = os.path.join(replay_dir, f"{seed}-{v['run']}-{v['case']}-{o}.json")
        with open(path, "w") as f:
            json.dump(jsonable(v), f, indent=1)
        reported.append(path)
    for w, n in sorted(known.items()):
        print(f"KNOWN-FINDING: property={sim.pid} {w} (matched {n}x)")
    for path in reported:
        print(f"VIOLATION property={sim.pid} replay={path}")
    if errors:
        print(f"HARNESS-ERROR property={sim.pid} count={len(errors)}\n{errors[0]}", file=sys.stderr)
    if timeouts:
        print(f"HARNESS-TIMEOUT property={sim.pid} count={timeouts}", file=sys.stderr)
    if broken:
        print(f"HARNESS-ERROR property={sim.pid} {broken}", file=sys.stderr)

    zero_probes = [p for p in sim.expected_probes if stats.get("probes." + p, 0) == 0]
    if write_evidence:
        from .evidence import write
        write(sim, tier, seed, wall, evals, runs_done, n_runs, len(sigs), samples, stats, violations,
              known, errors, timeouts, batch_digest, workers, zero_probes)
    if not quiet:
        print(f"[{sim.pid}] tier={tier} seed={seed} runs={runs_done}/{n_runs} evaluations={evals} "
              f"distinct={len(sigs)} ops={stats.get('ops', 0)} wall={wall:.1f}s digest={batch_digest} "
              f"violations={len(violations)} known={sum(known.values())} errors={len(errors)} timeouts={timeouts}")
        if zero_probes:
            print(f"[{sim.pid}] WARNING probes never hit: {', '.join(zero_probes)}")
    if errors or timeouts or broken:
        return 2
    if violations:
        return 1
    if evals == 0:
        print(f"HARNESS-ERROR property={sim.pid} nothing executed", file=sys.stderr)
        return 2
    return 0


def replay(sim: Sim, path: str) -> int:
    with open(path) as f:
        doc = json.load(f)
    trace = doc["trace"] if "trace" in doc else doc
    exp = doc.get("expect")
    env.reset_settings()
    out = sim.execute(trace, keep_log=True)
    env.reset_settings()
    for line in (out.log or [])[-40:]:
        print("  " + line)
    if out.violation is None:
        print(f"REPLAY property={sim.pid} no violation digest={out.digest}")
        return 3 if exp else 0
    v = out.violation
    same = exp is None or (exp["oracle"] == v["oracle"] and exp["op"] == v["op"] and exp["digest"] == out.digest)
    print(f"REPLAY property={sim.pid} oracle={v['oracle']} op={v['op']} digest={out.digest} "
          f"{'reproduced' if same else 'MISMATCH expected ' + json.dumps(exp)}")
    print(json.dumps(jsonable(v["details"]))[:2000])
    known = findings.match(sim.pid, v, findings.load())
    if known is not None:
        print(f"KNOWN-FINDING: property={sim.pid} {known['what']}")
        return 0
    print(f"VIOLATION property={sim.pid} replay={path}")
    return 1 if same else 3
