"""Run driver.

The parent imports fuzzylite and stays *pristine* (it never executes a trace).  Every chunk of run
indices is executed in a child forked from the pristine parent, so a chunk is a pure function of
(code, seed, run indices).  Each chunk child forks, while still pristine itself, a *zygote* that
executes trace lists in forked grandchildren: violations are confirmed and shrunk there, i.e. in
exactly the process state a fresh interpreter replaying the file will have.  If a violation needs
traces executed earlier in the same chunk (process-global state leaking between engines of different
runs), those traces are kept as a minimised `prelude` in the replay file.
"""
from __future__ import annotations

import faulthandler
import hashlib
import json
import os
import pickle
import shutil
import signal
import struct
import sys
import tempfile
import time
import traceback

from . import env, findings
from .canon import jsonable
from .core import HarnessTimeout, Outcome, Sim, Stats
from .rng import run_rng
from .shrink import shrink

RUN_WALL_S = 45  # per trace; only hangs should ever reach it (the slowest legitimate traces take 1-3 s on an idle core)
CHUNK_WALL_S = 3600


def _alarm(signum, frame):  # noqa: ARG001
    raise HarnessTimeout()


def _sig_hash(sig: str) -> int:
    return int.from_bytes(hashlib.blake2b(sig.encode(), digest_size=8).digest(), "big")


def execute_list(sim: Sim, traces: list[dict]) -> Outcome:
    """Execute traces in order in this process; the outcome is that of the last one."""
    out = Outcome()
    for t in traces:
        env.reset_settings()
        out = sim.execute(t)
    env.reset_settings()
    return out


class Pristine:
    """Zygote forked from a pristine process; runs trace lists in forked grandchildren."""

    def __init__(self, sim: Sim) -> None:
        self.sim = sim
        req_r, req_w = os.pipe()
        res_r, res_w = os.pipe()
        self.pid = os.fork()
        if self.pid == 0:
            os.close(req_w)
            os.close(res_r)
            try:
                self._serve(os.fdopen(req_r, "rb"), os.fdopen(res_w, "wb"))
            finally:
                os._exit(0)
        os.close(req_r)
        os.close(res_w)
        self.w = os.fdopen(req_w, "wb")
        self.r = os.fdopen(res_r, "rb")

    def _serve(self, rf, wf) -> None:
        signal.signal(signal.SIGALRM, signal.SIG_DFL)
        while True:
            try:
                traces = pickle.load(rf)
            except EOFError:
                return
            r, w = os.pipe()
            pid = os.fork()
            if pid == 0:
                os.close(r)
                res = ("error", "?", "")
                try:
                    signal.signal(signal.SIGALRM, _alarm)
                    signal.alarm(RUN_WALL_S * 2)
                    out = execute_list(self.sim, traces)
                    signal.alarm(0)
                    res = ("ok", out.violation, out.digest)
                except HarnessTimeout:
                    res = ("timeout", None, "")
                except BaseException as e:  # noqa: BLE001
                    res = ("error", repr(e), "")
                try:
                    with os.fdopen(w, "wb") as f:
                        pickle.dump(res, f)
                finally:
                    os._exit(0)
            os.close(w)
            with os.fdopen(r, "rb") as f:
                data = f.read()
            os.waitpid(pid, 0)
            wf.write(struct.pack("<I", len(data)))
            wf.write(data)
            wf.flush()

    def run(self, traces: list[dict]):
        pickle.dump(traces, self.w)
        self.w.flush()
        n = struct.unpack("<I", self.r.read(4))[0]
        status, violation, digest = pickle.loads(self.r.read(n))
        if status == "timeout":
            raise HarnessTimeout()
        if status == "error":
            raise RuntimeError(f"pristine execution failed: {violation}")
        return violation, digest

    def close(self) -> None:
        try:
            self.w.close()
            self.r.close()
            os.waitpid(self.pid, 0)
        except Exception:
            pass


class _PristineSim:
    """Adapter so the shrinker executes candidates in pristine grandchildren (with a fixed prelude)."""

    def __init__(self, sim: Sim, zyg: Pristine, prelude: list[dict]) -> None:
        self.sim, self.zyg, self.prelude = sim, zyg, prelude

    def execute(self, trace: dict, keep_log: bool = False) -> Outcome:
        out = Outcome()
        out.violation, out.digest = self.zyg.run(self.prelude + [trace])
        return out

    def shrink_passes(self):
        return self.sim.shrink_passes()


def _shrink_prelude(sim: Sim, zyg: Pristine, prelude: list[dict], trace: dict, oracle: str) -> list[dict]:
    """Drop chunks of the prelude while the violation persists."""
    cur = list(prelude)
    size = max(1, len(cur) // 2)
    t0 = time.monotonic()
    while size >= 1 and cur and time.monotonic() - t0 < 30:
        i = 0
        while i < len(cur):
            cand = cur[:i] + cur[i + size:]
            v, _ = zyg.run(cand + [trace])
            if v and v["oracle"] == oracle:
                cur = cand
            else:
                i += size
        size //= 2
    return cur


def _work(sim: Sim, job: tuple, fnd: list[dict], stop_path: str) -> dict:
    seed, tier, start, stop, do_shrink = job
    zyg = Pristine(sim)  # forked while this chunk child is still pristine
    signal.signal(signal.SIGALRM, _alarm)
    res = {
        "start": start, "stop": stop, "stats": Stats(), "sigs": set(), "samples": [],
        "violations": [], "known": [], "errors": [], "timeouts": 0, "evals": 0, "digests": [],
    }
    seen_oracles: set[str] = set()
    executed: list[dict] = []  # traces executed so far in this chunk (candidate prelude)
    try:
        for run in range(start, stop):
            if os.path.exists(stop_path):
                res["stop"] = run
                break
            rng = run_rng(seed, sim.pid, run)
            try:
                for case_no, trace in enumerate(sim.cases(rng, run, tier)):
                    trace.setdefault("property", sim.pid)
                    trace["seed"], trace["run"], trace["case"] = seed, run, case_no
                    env.reset_settings()
                    signal.alarm(RUN_WALL_S)
                    try:
                        out = sim.execute(trace)
                    finally:
                        signal.alarm(0)
                        # also *after* the trace: the generator of the next case / run may do a dry run of its own (C13 counts the
                        # line events of a target), which must not see what this trace left behind (debug mode, settings)
                        env.reset_settings()
                    res["evals"] += 1
                    res["stats"].update(out.stats)
                    res["digests"].append((run, case_no, out.digest))
                    if out.nontrivial:
                        res["sigs"].add(_sig_hash(out.signature))
                        if len(res["samples"]) < 1:
                            res["samples"].append(trace)
                    if out.violation:
                        v = out.violation
                        known = findings.match(sim.pid, v, fnd)
                        if known is not None:
                            res["known"].append(known["what"])
                        elif v["oracle"] in seen_oracles:
                            res["stats"].hit("violations_unshrunk")
                        else:
                            vr = _confirm_and_shrink(sim, zyg, executed, trace, v, out.digest, do_shrink)
                            # seen once here, but not reproducible from a pristine process - neither alone nor after this worker's
                            # whole history: nothing a replay file could show. Counted and kept aside, not reported as a violation
                            # (unless the history kept was truncated: then the pristine run proves nothing)
                            vr["unconfirmed"] = (not vr["pristine"]) and len(executed) < 6000
                            if not vr["unconfirmed"]:
                                seen_oracles.add(v["oracle"])
                            else:
                                res["stats"].hit("outcomes.unconfirmed_observation_" + v["oracle"])
                            res["violations"].append(vr)
                    if len(executed) < 6000:
                        executed.append(trace)
            except HarnessTimeout:
                res["timeouts"] += 1
            except Exception:
                res["errors"].append(f"run={run}: " + traceback.format_exc(limit=8))
            finally:
                signal.alarm(0)
    finally:
        zyg.close()
    env.reset_settings()
    return res


def _confirm_and_shrink(sim: Sim, zyg: Pristine, executed: list[dict], trace: dict, v: dict, digest: str, do_shrink: bool) -> dict:
    oracle = v["oracle"]
    prelude: list[dict] = []
    pv, pd = zyg.run([trace])
    standalone = bool(pv) and pv["oracle"] == oracle
    if not standalone:
        pv, pd = zyg.run(executed + [trace])
        if pv and pv["oracle"] == oracle:
            prelude = _shrink_prelude(sim, zyg, executed, trace, oracle) if do_shrink else list(executed)
        else:
            # not reproducible from a pristine process even with the chunk's history: report as found
            return {"property": sim.pid, "seed": trace["seed"], "run": trace["run"], "case": trace["case"], "trace": trace,
                    "prelude": [], "shrink_execs": 0, "original_ops": len(trace.get("ops", [])), "pristine": False,
                    "expect": {"oracle": oracle, "op": v["op"], "digest": digest}, "violation": jsonable(v)}
    small, execs = trace, 0
    if do_shrink:
        small, execs = shrink(_PristineSim(sim, zyg, prelude), trace, oracle)
    v2, d2 = zyg.run(prelude + [small])
    if not v2 or v2["oracle"] != oracle:  # cannot happen (the shrinker only keeps failing candidates); be safe
        small, (v2, d2) = trace, zyg.run(prelude + [trace])
    return {"property": sim.pid, "seed": trace["seed"], "run": trace["run"], "case": trace["case"], "trace": small,
            "prelude": prelude, "shrink_execs": execs, "original_ops": len(trace.get("ops", [])), "pristine": True,
            "expect": {"oracle": v2["oracle"], "op": v2["op"], "digest": d2}, "violation": jsonable(v2)}


def run_batch(sim: Sim, tier: str, seed: int, runs: int | None = None, workers: int | None = None,
              budget_s: float | None = None, do_shrink: bool = True, stop_on_violation: bool = True,
              write_evidence: bool = True, quiet: bool = False) -> int:
    t0 = time.monotonic()
    n_runs, budget = sim.tiers[tier]
    if runs is not None:
        n_runs = runs
    if budget_s is not None:
        budget = budget_s
    workers = workers or min(16, os.cpu_count() or 1)
    fnd = findings.load()
    sim.prepare()
    base_chunk = getattr(sim, "chunk_thorough", sim.chunk) if tier == "thorough" else sim.chunk
    chunk = max(1, min(base_chunk, (n_runs + workers - 1) // workers))
    jobs = [(seed, tier, s, min(s + chunk, n_runs), do_shrink) for s in range(0, n_runs, chunk)]
    tmp = tempfile.mkdtemp(prefix="verif-run-", dir="/dev/shm" if os.path.isdir("/dev/shm") else None)
    stop_path = os.path.join(tmp, "STOP")
    results: list[dict] = []
    broken = None
    running: dict[int, tuple] = {}
    it = iter(jobs)
    exhausted = False
    sys.stdout.flush()
    sys.stderr.flush()
    try:
        while True:
            while not exhausted and len(running) < workers and not os.path.exists(stop_path):
                if time.monotonic() - t0 > budget:
                    exhausted = True
                    break
                job = next(it, None)
                if job is None:
                    exhausted = True
                    break
                path = os.path.join(tmp, f"{job[2]}.pkl")
                pid = os.fork()
                if pid == 0:
                    code = 0
                    try:
                        faulthandler.dump_traceback_later(CHUNK_WALL_S, exit=True)
                        r = _work(sim, job, fnd, stop_path)
                        with open(path + ".tmp", "wb") as f:
                            pickle.dump(r, f)
                        os.replace(path + ".tmp", path)
                    except BaseException:  # noqa: BLE001
                        traceback.print_exc()
                        code = 3
                    finally:
                        sys.stdout.flush()
                        sys.stderr.flush()
                        os._exit(code)
                running[pid] = (job, path, time.monotonic())
            if not running:
                break
            pid, status = os.waitpid(-1, os.WNOHANG)
            if pid == 0:
                time.sleep(0.005)
                oldest = min(r[2] for r in running.values())
                if time.monotonic() - oldest > CHUNK_WALL_S + 60:
                    broken = "a chunk made no progress"
                    break
                continue
            if pid not in running:
                continue
            job, path, _ = running.pop(pid)
            if status != 0 or not os.path.exists(path):
                broken = f"chunk {job[2]}..{job[3]} died (status {status})"
                break
            with open(path, "rb") as f:
                r = pickle.load(f)
            os.unlink(path)
            results.append(r)
            if r["violations"] and stop_on_violation:
                open(stop_path, "w").close()
    finally:
        for pid in list(running):
            try:
                os.kill(pid, signal.SIGKILL)
                os.waitpid(pid, 0)
            except Exception:
                pass
        shutil.rmtree(tmp, ignore_errors=True)
    results.sort(key=lambda r: r["start"])
    stats = Stats()
    sigs: set[int] = set()
    samples: list[dict] = []
    violations: list[dict] = []
    unconfirmed: list[dict] = []
    known: dict[str, int] = {}
    errors: list[str] = []
    timeouts = 0
    evals = 0
    runs_done = 0
    dh = hashlib.sha256()
    for r in results:
        stats.update(r["stats"])
        sigs |= r["sigs"]
        if len(samples) < 3:
            samples.extend(r["samples"][: 3 - len(samples)])
        violations.extend(v for v in r["violations"] if not v.get("unconfirmed"))
        unconfirmed.extend(v for v in r["violations"] if v.get("unconfirmed"))
        for w in r["known"]:
            known[w] = known.get(w, 0) + 1
        errors.extend(r["errors"])
        timeouts += r["timeouts"]
        evals += r["evals"]
        runs_done += r["stop"] - r["start"]
        for d in r["digests"]:
            dh.update(repr(d).encode())
    wall = time.monotonic() - t0
    batch_digest = dh.hexdigest()[:24]

    replay_dir = os.path.join(env.VERIF, "out", "replays", sim.pid)
    reported: list[str] = []
    seen: set[str] = set()
    for v in violations:
        o = v["expect"]["oracle"]
        if o in seen:
            continue
        seen.add(o)
        os.makedirs(replay_dir, exist_ok=True)
        path = os.path.join(replay_dir, f"{seed}-{v['run']}-{v['case']}-{o}.json")
        with open(path, "w") as f:
            json.dump(jsonable(v), f, indent=1)
        reported.append(path)
    for u in unconfirmed:
        udir = os.path.join(env.VERIF, "out", "unconfirmed", sim.pid)
        os.makedirs(udir, exist_ok=True)
        upath = os.path.join(udir, f"{seed}-{u['run']}-{u['case']}-{u['expect']['oracle']}.json")
        with open(upath, "w") as f:
            json.dump(jsonable(u), f, indent=1)
        print(f"UNCONFIRMED-OBSERVATION property={sim.pid} oracle={u['expect']['oracle']} file={upath} (seen once in a worker process; "
              f"not reproducible from a pristine process, alone or after the worker's whole history: not reported as a violation)")
    for w, n in sorted(known.items()):
        print(f"KNOWN-FINDING: property={sim.pid} {w} (matched {n}x)")
    for path in reported:
        print(f"VIOLATION property={sim.pid} replay={path}")
    if errors:
        print(f"HARNESS-ERROR property={sim.pid} count={len(errors)}\n{errors[0]}", file=sys.stderr)
    if timeouts:
        print(f"HARNESS-TIMEOUT property={sim.pid} count={timeouts}", file=sys.stderr)
    if broken:
        print(f"HARNESS-ERROR property={sim.pid} {broken}", file=sys.stderr)

    zero_probes = [p for p in sim.expected_probes if stats.get("probes." + p, 0) == 0]
    if write_evidence:
        from .evidence import write
        write(sim, tier, seed, wall, evals, runs_done, n_runs, len(sigs), samples, stats, violations,
              known, errors, timeouts, batch_digest, workers, zero_probes)
    if not quiet:
        print(f"[{sim.pid}] tier={tier} seed={seed} runs={runs_done}/{n_runs} evaluations={evals} "
              f"distinct={len(sigs)} ops={stats.get('ops', 0)} wall={wall:.1f}s digest={batch_digest} "
              f"violations={len(violations)} known={sum(known.values())} errors={len(errors)} timeouts={timeouts}")
        if zero_probes:
            print(f"[{sim.pid}] WARNING probes never hit: {', '.join(zero_probes)}")
    if errors or timeouts or broken:
        return 2
    if violations:
        return 1
    if evals == 0:
        print(f"HARNESS-ERROR property={sim.pid} nothing executed", file=sys.stderr)
        return 2
    return 0


def replay(sim: Sim, path: str) -> int:
    with open(path) as f:
        doc = json.load(f)
    trace = doc["trace"] if "trace" in doc else doc
    exp = doc.get("expect")
    for t in doc.get("prelude", []):
        env.reset_settings()
        sim.execute(t)
    env.reset_settings()
    out = sim.execute(trace, keep_log=True)
    env.reset_settings()
    for line in (out.log or [])[-40:]:
        print("  " + line)
    if out.violation is None:
        print(f"REPLAY property={sim.pid} no violation digest={out.digest}")
        return 3 if exp else 0
    v = out.violation
    same = exp is None or (exp["oracle"] == v["oracle"] and exp["op"] == v["op"] and exp["digest"] == out.digest)
    print(f"REPLAY property={sim.pid} oracle={v['oracle']} op={v['op']} digest={out.digest} "
          f"{'reproduced' if same else 'MISMATCH expected ' + json.dumps(exp)}")
    print(json.dumps(jsonable(v["details"]))[:2000])
    known = findings.match(sim.pid, v, findings.load())
    if known is not None:
        print(f"KNOWN-FINDING: property={sim.pid} {known['what']}")
        return 0
    print(f"VIOLATION property={sim.pid} replay={path}")
    return 1 if same else 3
