"""Operations on engines shared by the life-cycle simulations: dual (object / spec) edits, toggles,
canonical snapshots, object-graph checks, abort injectors."""
from __future__ import annotations

import copy
from typing import Any

import numpy as np

from . import env, spec as S
from .canon import attrs, cs, cv, fdec, fenc, fx
from .faults import Armed, FpTrap

fl = env.fl


# ---------------------------------------------------------------------------- addressing
def var_of(engine, ref: list):
    kind, vi = ref
    vs = engine.input_variables if kind == "in" else engine.output_variables
    return vs[vi % len(vs)]


def svar_of(spec: dict, ref: list) -> dict:
    kind, vi = ref
    vs = spec["inputs"] if kind == "in" else spec["outputs"]
    return vs[vi % len(vs)]


# ---------------------------------------------------------------------------- edits (dual)
def apply_edit(engine, ed: dict) -> None:
    """Apply one configuration edit to live objects. Total: silently a no-op when it does not apply."""
    t = ed["t"]
    if t in ("term_attr", "discrete_cell", "linear_coeff", "function_var"):
        v = var_of(engine, ed["var"])
        if not v.terms:
            return
        term = v.terms[ed["ti"] % len(v.terms)]
        if t == "term_attr":
            # (the same applicability rule as apply_edit_spec: Function / Linear specs carry no scalar attribute, a Constant's
            # only one is its value - an edit generated for another term may land here after swap_terms or a shrink step)
            if isinstance(term, (fl.Function, fl.Linear)) or (isinstance(term, fl.Constant) and ed["attr"] != "value"):
                return
            if hasattr(term, ed["attr"]) and isinstance(getattr(term, ed["attr"]), (float, int)) and not isinstance(getattr(term, ed["attr"]), bool):
                setattr(term, ed["attr"], fdec(ed["v"]))
        elif t == "discrete_cell":
            if isinstance(term, fl.Discrete) and term.values.size:
                term.values[ed["row"] % term.values.shape[0], 1] = fdec(ed["v"])  # in place (a shallow copy would share it)
        elif t == "linear_coeff":
            if isinstance(term, fl.Linear) and term.coefficients:
                term.coefficients[ed["idx"] % len(term.coefficients)] = fdec(ed["v"])  # in place
        elif t == "function_var":
            if isinstance(term, fl.Function) and term.variables:
                key = sorted(term.variables)[ed["idx"] % len(term.variables)]
                if isinstance(term.variables[key], np.ndarray):
                    term.variables[key][...] = fdec(ed["v"])  # in place in the array object itself
                else:
                    term.variables[key] = fdec(ed["v"])  # in place in the dict
    elif t == "range":
        v = var_of(engine, ed["var"])
        setattr(v, "minimum" if ed["which"] == "min" else "maximum", fdec(ed["v"]))
    elif t == "rule_weight":
        b = engine.rule_blocks[ed["b"] % len(engine.rule_blocks)]
        b.rules[ed["r"] % len(b.rules)].weight = fdec(ed["v"])
    elif t == "unload_rule":
        b = engine.rule_blocks[ed["b"] % len(engine.rule_blocks)]
        b.rules[ed["r"] % len(b.rules)].unload()  # public API: the rule stays in the block but is skipped
    elif t == "swap_rules":
        rules = engine.rule_blocks[ed["b"] % len(engine.rule_blocks)].rules  # a public list: order matters to First/Last/Highest
        i, j = ed["r"] % len(rules), (ed["r"] + 1) % len(rules)
        rules[i], rules[j] = rules[j], rules[i]
    elif t == "swap_terms":
        terms = var_of(engine, ed["var"]).terms
        if len(terms) > 1:
            i, j = ed["ti"] % len(terms), (ed["ti"] + 1) % len(terms)
            terms[i], terms[j] = terms[j], terms[i]
    elif t == "long_rule":
        # a machine-generated rule: the first proposition of the antecedent chained n times (the text the spec side keeps)
        b = engine.rule_blocks[ed["b"] % len(engine.rule_blocks)]
        r = b.rules[ed["r"] % len(b.rules)]
        was_loaded = r.is_loaded()
        weight = r.weight
        r.text = ed["text"]  # (the text carries no weight: the rule keeps the one it has, as the spec side does)
        r.weight = weight
        if was_loaded:
            r.load(engine)
    elif t == "same_value":
        # an edit to the value the attribute already has (a GUI that writes every field back): changes nothing
        w = ed["what"]
        if w == "rule_text":
            b = engine.rule_blocks[ed["b"] % len(engine.rule_blocks)]
            r = b.rules[ed["r"] % len(b.rules)]
            if float(f"{r.weight:.3f}") == r.weight:  # (the text prints the weight with `decimals` digits: otherwise not the same value)
                r.text = r.text
        elif w == "rule_weight":
            b = engine.rule_blocks[ed["b"] % len(engine.rule_blocks)]
            r = b.rules[ed["r"] % len(b.rules)]
            r.weight = r.weight
        elif w == "range":
            for v in engine.variables:
                v.range = v.range
        elif w == "names":
            for v in engine.variables:
                v.name = v.name
                for t_ in v.terms:
                    t_.name = t_.name
        elif w == "operators":
            for b in engine.rule_blocks:
                b.conjunction, b.disjunction, b.implication, b.activation = b.conjunction, b.disjunction, b.implication, b.activation
            for v in engine.output_variables:
                v.aggregation, v.defuzzifier, v.default_value, v.lock_previous, v.lock_range = (
                    v.aggregation, v.defuzzifier, v.default_value, v.lock_previous, v.lock_range)
    elif t == "gain0":
        S.set_gain(fdec(ed["v"]))  # the parameter of the user-defined function element (process-global, like its factory)
    elif t == "resolution":
        d = engine.output_variables[ed["out"] % len(engine.output_variables)].defuzzifier
        if isinstance(d, fl.IntegralDefuzzifier):
            d.resolution = int(ed["v"])
    elif t == "activation_param":
        a = engine.rule_blocks[ed["b"] % len(engine.rule_blocks)].activation
        if a is not None and hasattr(a, ed["attr"]):
            setattr(a, ed["attr"], int(ed["v"]) if ed["attr"] == "rules" else fdec(ed["v"]))
    elif t == "operator":
        where = ed["where"]
        obj = S.build_norm(ed["v"])
        if where[0] == "block":
            setattr(engine.rule_blocks[where[1] % len(engine.rule_blocks)], where[2], obj)
        else:
            engine.output_variables[where[1] % len(engine.output_variables)].aggregation = obj
    elif t == "out_setting":
        ov = engine.output_variables[ed["out"] % len(engine.output_variables)]
        if ed["key"] == "default":
            ov.default_value = fdec(ed["v"])
        else:
            setattr(ov, ed["key"], bool(ed["v"]))
    else:
        raise AssertionError(t)


def apply_edit_spec(spec: dict, ed: dict) -> None:
    """The same edit on the JSON spec (so that build(spec) gives a fresh engine in the current configuration)."""
    t = ed["t"]
    if t in ("term_attr", "discrete_cell", "linear_coeff", "function_var"):
        v = svar_of(spec, ed["var"])
        if not v["terms"]:
            return
        term = v["terms"][ed["ti"] % len(v["terms"])]
        a = term["args"]
        if t == "term_attr":
            if term["cls"] != "Function" and ed["attr"] in a and not isinstance(a[ed["attr"]], (list, dict)):
                a[ed["attr"]] = ed["v"]
        elif t == "discrete_cell":
            if term["cls"] == "Discrete" and a["values"]:
                rows = len(a["values"]) // 2
                a["values"][2 * (ed["row"] % rows) + 1] = ed["v"]
        elif t == "linear_coeff":
            if term["cls"] == "Linear" and a["coefficients"]:
                a["coefficients"][ed["idx"] % len(a["coefficients"])] = ed["v"]
        elif t == "function_var":
            if term["cls"] == "Function" and a.get("variables"):
                key = sorted(a["variables"])[ed["idx"] % len(a["variables"])]
                a["variables"][key] = ed["v"]
    elif t == "range":
        svar_of(spec, ed["var"])[ed["which"]] = ed["v"]
    elif t == "rule_weight":
        b = spec["blocks"][ed["b"] % len(spec["blocks"])]
        b["rules"][ed["r"] % len(b["rules"])]["weight"] = ed["v"]
    elif t == "unload_rule":
        b = spec["blocks"][ed["b"] % len(spec["blocks"])]
        b["rules"][ed["r"] % len(b["rules"])]["unloaded"] = True
    elif t == "swap_rules":
        rules = spec["blocks"][ed["b"] % len(spec["blocks"])]["rules"]
        i, j = ed["r"] % len(rules), (ed["r"] + 1) % len(rules)
        rules[i], rules[j] = rules[j], rules[i]
    elif t == "swap_terms":
        terms = svar_of(spec, ed["var"])["terms"]
        if len(terms) > 1:
            i, j = ed["ti"] % len(terms), (ed["ti"] + 1) % len(terms)
            terms[i], terms[j] = terms[j], terms[i]
    elif t == "long_rule":
        b = spec["blocks"][ed["b"] % len(spec["blocks"])]
        b["rules"][ed["r"] % len(b["rules"])]["text"] = ed["text"]  # build() prefers a literal text over the AST
    elif t == "same_value":
        pass
    elif t == "gain0":
        spec["gain0"] = ed["v"]
    elif t == "resolution":
        d = spec["outputs"][ed["out"] % len(spec["outputs"])]["defuzzifier"]
        if d and "resolution" in d:
            d["resolution"] = int(ed["v"])
    elif t == "activation_param":
        a = spec["blocks"][ed["b"] % len(spec["blocks"])]["activation"]
        if a is not None and ed["attr"] in a:
            a[ed["attr"]] = ed["v"]
    elif t == "operator":
        where = ed["where"]
        if where[0] == "block":
            spec["blocks"][where[1] % len(spec["blocks"])][where[2]] = ed["v"]
        else:
            spec["outputs"][where[1] % len(spec["outputs"])]["aggregation"] = ed["v"]
    elif t == "out_setting":
        spec["outputs"][ed["out"] % len(spec["outputs"])][ed["key"]] = ed["v"]
    else:
        raise AssertionError(t)


def gen_edit(rng, spec: dict) -> dict:
    """Draw an edit that applies to this spec."""
    for _ in range(20):
        t = rng.choice(["term_attr", "term_attr", "term_attr", "discrete_cell", "linear_coeff", "function_var", "range",
                        "rule_weight", "resolution", "activation_param", "operator", "out_setting", "unload_rule", "swap_rules",
                        "swap_terms"])
        if spec.get("flags", {}).get("long_rules") and rng.random() < 0.25:
            bi = rng.randrange(len(spec["blocks"]))
            ri = rng.randrange(len(spec["blocks"][bi]["rules"]))
            r = spec["blocks"][bi]["rules"][ri]
            if "text" not in r:
                words = S.rule_text(r).split()
                end = words.index("then")
                unit = []
                for w in words[1:end]:
                    if w in ("and", "or"):
                        break
                    if w not in ("(", ")"):
                        unit.append(w)
                n = rng.choice([120, 400, 400])
                conn = rng.choice(["and", "or"])
                tail = words[end:words.index("with")] if "with" in words else words[end:]
                text = "if " + f" {conn} ".join([" ".join(unit)] * n) + " " + " ".join(tail)
                return {"t": "long_rule", "b": bi, "r": ri, "n": n, "text": text}
        if rng.random() < 0.06:
            bi = rng.randrange(len(spec["blocks"]))
            return {"t": "same_value", "what": rng.choice(["rule_text", "rule_text", "rule_weight", "range", "names", "operators"]),
                    "b": bi, "r": rng.randrange(len(spec["blocks"][bi]["rules"]))}
        if S.uses_gain0(spec) and rng.random() < 0.3:
            return {"t": "gain0", "v": fenc(rng.choice([0.5, 2.0, 1.0, 0.25]))}
        if t in ("unload_rule", "swap_rules"):
            bi = rng.randrange(len(spec["blocks"]))
            return {"t": t, "b": bi, "r": rng.randrange(len(spec["blocks"][bi]["rules"]))}
        if t == "swap_terms":
            kind = rng.choice(["in", "out"])
            vs = spec["inputs"] if kind == "in" else spec["outputs"]
            vi = rng.randrange(len(vs))
            return {"t": t, "var": [kind, vi], "ti": rng.randrange(8)}
        if t in ("term_attr", "discrete_cell", "linear_coeff", "function_var"):
            kind = rng.choice(["in", "out"])
            vs = spec["inputs"] if kind == "in" else spec["outputs"]
            vi = rng.randrange(len(vs))
            if not vs[vi]["terms"]:
                continue
            ti = rng.randrange(len(vs[vi]["terms"]))
            term = vs[vi]["terms"][ti]
            lo, hi = fdec(vs[vi]["min"]), fdec(vs[vi]["max"])
            if not np.isfinite(lo):  # infinite range: edit inside a finite window (a NaN parameter would not survive the
                lo = -10.0           # spec round trip: Triangle(left, top, nan) is the two-argument form of the constructor)
            if not np.isfinite(hi):
                hi = 10.0
            if t == "term_attr":
                attrs = [] if term["cls"] == "Function" else [k for k, v in term["args"].items() if not isinstance(v, (list, dict))]
                if not attrs:
                    continue
                attr = rng.choice(attrs)
                if attr == "height":
                    v = rng.choice([0.25, 0.5, 0.75, 1.0])
                elif attr in ("slope", "rising", "falling", "width", "standard_deviation", "standard_deviation_a", "standard_deviation_b", "direction"):
                    v = fdec(term["args"][attr]) * rng.choice([0.5, 2.0, 1.5]) if term["args"][attr] not in ("inf", "-inf") else fdec(term["args"][attr])
                else:
                    v = lo + (hi - lo) * rng.random()
                return {"t": t, "var": [kind, vi], "ti": ti, "attr": attr, "v": fenc(v)}
            if t == "discrete_cell" and term["cls"] == "Discrete":
                return {"t": t, "var": [kind, vi], "ti": ti, "row": rng.randrange(8), "v": fenc(round(rng.random(), 3))}
            if t == "linear_coeff" and term["cls"] == "Linear" and term["args"]["coefficients"]:
                return {"t": t, "var": [kind, vi], "ti": ti, "idx": rng.randrange(4), "v": fenc(round(rng.uniform(-2, 2), 3))}
            if t == "function_var" and term["cls"] == "Function" and term["args"].get("variables"):
                return {"t": t, "var": [kind, vi], "ti": ti, "idx": 0, "v": fenc(rng.choice([0.25, 1.5, 3.0]))}
            continue
        if t == "range":
            vi = rng.randrange(len(spec["outputs"]))
            o = spec["outputs"][vi]
            lo, hi = fdec(o["min"]), fdec(o["max"])
            if not (np.isfinite(lo) and np.isfinite(hi)):
                continue
            which = rng.choice(["min", "max"])
            v = lo - rng.choice([0.5, 1.0]) if which == "min" else hi + rng.choice([0.5, 1.0])
            return {"t": t, "var": ["out", vi], "which": which, "v": fenc(v)}
        if t == "rule_weight":
            bi = rng.randrange(len(spec["blocks"]))
            return {"t": t, "b": bi, "r": rng.randrange(len(spec["blocks"][bi]["rules"])), "v": fenc(rng.choice([0.1, 0.5, 0.9, 1.0, 2.0, 0.3456, 0.9995, 0.123456789]))}
        if t == "resolution":
            cands = [i for i, o in enumerate(spec["outputs"]) if o["defuzzifier"] and "resolution" in o["defuzzifier"]]
            if cands:
                return {"t": t, "out": rng.choice(cands), "v": rng.choice([5, 11, 40, 100])}
            continue
        if t == "activation_param":
            cands = [(i, b["activation"]) for i, b in enumerate(spec["blocks"]) if b["activation"] and len(b["activation"]) > 1]
            if cands:
                bi, a = rng.choice(cands)
                attr = rng.choice([k for k in a if k in ("rules", "threshold")])
                return {"t": t, "b": bi, "attr": attr, "v": rng.randint(0, 3) if attr == "rules" else fenc(rng.choice([0.0, 0.2, 0.6]))}
            continue
        if t == "operator":
            if rng.random() < 0.7:
                key = rng.choice(["conjunction", "disjunction", "implication"])
                return {"t": t, "where": ["block", rng.randrange(len(spec["blocks"])), key],
                        "v": rng.choice(S.SNORMS if key == "disjunction" else S.TNORMS)}
            cands = [i for i, o in enumerate(spec["outputs"]) if o["aggregation"]]
            if cands:
                return {"t": t, "where": ["out", rng.choice(cands), "aggregation"], "v": rng.choice(S.SNORMS)}
            continue
        if t == "out_setting":
            key = rng.choice(["lock_range", "default", "lock_previous"])
            v: Any = (rng.random() < 0.5) if key != "default" else fenc(rng.choice([float("nan"), 0.0, 0.5, 3.0]))
            return {"t": t, "out": rng.randrange(len(spec["outputs"])), "key": key, "v": v}
    return {"t": "rule_weight", "b": 0, "r": 0, "v": 0.5}


def toggle(engine, path: list) -> None:
    obj = _component(engine, path)
    obj.enabled = not obj.enabled


def toggle_spec(spec: dict, path: list) -> None:
    k = path[0]
    if k == "in":
        o = spec["inputs"][path[1] % len(spec["inputs"])]
    elif k == "out":
        o = spec["outputs"][path[1] % len(spec["outputs"])]
    elif k == "block":
        o = spec["blocks"][path[1] % len(spec["blocks"])]
    else:
        b = spec["blocks"][path[1] % len(spec["blocks"])]
        o = b["rules"][path[2] % len(b["rules"])]
    o["enabled"] = not o["enabled"]


def _component(engine, path: list):
    k = path[0]
    if k == "in":
        return engine.input_variables[path[1] % len(engine.input_variables)]
    if k == "out":
        return engine.output_variables[path[1] % len(engine.output_variables)]
    if k == "block":
        return engine.rule_blocks[path[1] % len(engine.rule_blocks)]
    b = engine.rule_blocks[path[1] % len(engine.rule_blocks)]
    return b.rules[path[2] % len(b.rules)]


def gen_toggle_path(rng, spec: dict) -> list:
    k = rng.choice(["in", "out", "block", "rule", "rule"])
    if k == "in":
        return [k, rng.randrange(len(spec["inputs"]))]
    if k == "out":
        return [k, rng.randrange(len(spec["outputs"]))]
    bi = rng.randrange(len(spec["blocks"]))
    if k == "block":
        return [k, bi]
    return [k, bi, rng.randrange(len(spec["blocks"][bi]["rules"]))]


# ---------------------------------------------------------------------------- snapshots
def _term_snap(t) -> tuple:
    items = []
    for k, v in attrs(t).items():
        if k in ("engine", "root"):
            continue
        if isinstance(v, np.ndarray) or isinstance(v, list):
            items.append((k, cv(v)))
        elif isinstance(v, dict):
            items.append((k, tuple((a, fx(b)) for a, b in sorted(v.items()))))
        elif isinstance(v, (float, np.floating)) or (isinstance(v, (int, np.integer)) and not isinstance(v, bool)):
            items.append((k, fx(v)))  # 1 and 1.0 are the same parameter value
        else:
            items.append((k, str(v)))
    if isinstance(t, fl.Function):
        items.append(("loaded", t.is_loaded()))
    return (type(t).__name__,) + tuple(items)


def _obj_snap(o) -> tuple:
    if o is None:
        return ("None",)
    return (type(o).__name__,) + tuple((k, fx(v) if isinstance(v, (float, int)) and not isinstance(v, bool) else (
        "callable:" + getattr(v, "__qualname__", type(v).__name__) if callable(v) and not hasattr(v, "membership") else str(v)))
                                       for k, v in sorted(attrs(o).items()) if not k.startswith("_sim"))


def snapshot(engine, flags: bool = True) -> tuple:
    """Canonical state of an engine: everything an operation on *another* engine must not change.
    flags=False leaves out the per-rule activation degree / triggered flag (incidental state that cannot
    influence any later output: every activation method resets it first)."""
    ins = tuple((v.name, v.enabled, fx(v.minimum), fx(v.maximum), v.lock_range, cv(v.value), tuple(_term_snap(t) for t in v.terms))
                for v in engine.input_variables)
    outs = tuple((v.name, v.enabled, fx(v.minimum), fx(v.maximum), v.lock_range, v.lock_previous, fx(v.default_value),
                  cv(v.value), fx(v.previous_value), _obj_snap(v.aggregation), _obj_snap(v.defuzzifier),
                  tuple((a.term.name, cv(a.degree), type(a.implication).__name__) for a in v.fuzzy.terms),
                  tuple(_term_snap(t) for t in v.terms)) for v in engine.output_variables)
    blocks = tuple((b.name, b.enabled, _obj_snap(b.conjunction), _obj_snap(b.disjunction), _obj_snap(b.implication), _obj_snap(b.activation),
                    tuple((r.antecedent.text, r.consequent.text, r.enabled, fx(r.weight), r.is_loaded()) + (
                        (cv(r.activation_degree), tuple(bool(x) for x in np.atleast_1d(r.triggered))) if flags else ())
                        for r in b.rules)) for b in engine.rule_blocks)
    return (ins, outs, blocks)


def snap_diff(a: tuple, b: tuple, path: str = "") -> str:
    """First differing path between two snapshots (for violation details)."""
    if a == b:
        return ""
    if isinstance(a, tuple) and isinstance(b, tuple):
        if len(a) != len(b):
            return f"{path}: len {len(a)} != {len(b)}"
        for i, (x, y) in enumerate(zip(a, b)):
            d = snap_diff(x, y, f"{path}/{i}")
            if d:
                return d
    return f"{path}: {str(a)[:80]} != {str(b)[:80]}"


def outputs_of(engine) -> tuple:
    """Observable outputs of enabled output variables: values and fuzzy values."""
    out = []
    for v in engine.output_variables:
        if not v.enabled:
            continue
        try:
            fz = cs(v.fuzzy_value())
        except Exception as e:  # an observation helper of the library failing must not become a harness error
            fz = (f"<fuzzy_value raised {type(e).__name__}>",)
        out.append((v.name, cv(v.value), fz))
    return tuple(out)


# ---------------------------------------------------------------------------- object graph
def graph_problem(engine) -> str:
    """'' when every reference reachable from the engine stays inside the engine, else a description."""
    all_vars = list(engine.input_variables) + list(engine.output_variables)
    vars_by_id = {id(v): v for v in all_vars}
    for v in all_vars:
        for t in v.terms:
            if (isinstance(t, (fl.Linear, fl.Function)) or "engine" in attrs(t)) and t.engine is not engine:
                return f"{type(t).__name__} term {v.name}.{t.name} references {'no' if t.engine is None else 'another'} engine"
    for ov in engine.output_variables:
        own = {id(t) for t in ov.terms}
        for a in ov.fuzzy.terms:
            if id(a.term) not in own:
                return f"fuzzy output of {ov.name} holds a term object that is not one of its terms"

    def walk(root, where):
        stack = [root]  # iterative: the tree of a long rule is as deep as the rule has connectives
        while stack:
            node = stack.pop()
            if node is None:
                continue
            if hasattr(node, "left"):
                stack += [node.right, node.left]
                continue
            if node.variable is None or id(node.variable) not in vars_by_id:
                return f"{where}: proposition variable is not a variable of this engine"
            if node.term is not None and all(node.term is not t for t in node.variable.terms):
                return f"{where}: proposition term '{node.term.name}' is not a term object of {node.variable.name}"
        return ""
    for bi, b in enumerate(engine.rule_blocks):
        for ri, r in enumerate(b.rules):
            if r.is_loaded():
                p = walk(r.antecedent.expression, f"rule {bi}.{ri} antecedent")
                if p:
                    return p
                for c in r.consequent.conclusions:
                    p = walk(c, f"rule {bi}.{ri} consequent")
                    if p:
                        return p
    return ""


def stale_rule_flags(engine) -> bool:
    return any(cv(r.activation_degree) != (fx(0.0),) or bool(np.any(r.triggered)) for b in engine.rule_blocks for r in b.rules)


def restart_problem(engine) -> str:
    """'' when the engine looks freshly restarted (what C13 names: inputs NaN, outputs and fuzzy outputs cleared,
    rules reloaded against this engine's own objects)."""
    for v in engine.input_variables:
        if cv(v.value) != ("nan",):
            return f"input {v.name} is {cv(v.value)} after restart"
    for v in engine.output_variables:
        if cv(v.value) != ("nan",) or fx(v.previous_value) != "nan":
            return f"output {v.name} value/previous not NaN after restart"
        if v.fuzzy.terms:
            return f"output {v.name} fuzzy output not empty after restart"
    for bi, b in enumerate(engine.rule_blocks):
        for ri, r in enumerate(b.rules):
            if not r.is_loaded():
                return f"rule {bi}.{ri} not loaded after restart"

    return graph_problem(engine)


# ---------------------------------------------------------------------------- inputs / aborts
def set_inputs(engine, rows: list, setter: str = "vars") -> None:
    n_in = len(engine.input_variables)
    arr = np.array([[fdec(v) for v in row][:n_in] + [float("nan")] * max(0, n_in - len(row)) for row in rows], dtype=float)
    arr = arr.reshape(len(rows), n_in)
    if len(rows) == 0:
        # an empty batch (a filter that selected no row): accepted by the library, every output is an empty array
        if setter == "matrix":
            engine.input_values = arr.copy()
        else:
            for iv in engine.input_variables:
                iv.value = np.empty(0)
        return
    if setter == "matrix" and len(rows) > 1:
        engine.input_values = arr.copy()  # the engine-level matrix setter
        return
    if setter == "inplace":
        # a control loop that reuses its input buffers: refill the value objects the variables already hold
        cur = [iv.value for iv in engine.input_variables]
        if all(isinstance(c, np.ndarray) and c.dtype == np.float64 and c.flags.writeable and c.shape == ((len(rows),) if len(rows) > 1 else ())
               for c in cur) and not any(iv.lock_range for iv in engine.input_variables):
            for c, col in enumerate(cur):
                col[...] = arr[:, c] if len(rows) > 1 else arr[0, c]
            return
        setter = "np0d" if len(rows) == 1 else "vars"
    for c, iv in enumerate(engine.input_variables):
        if len(rows) > 1:
            iv.value = arr[:, c].copy()
        elif setter == "np0d":
            iv.value = np.array(arr[0, c])  # a 0-d array, what fl.scalar(x) returns: a *mutable* scalar
        elif setter == "npfloat":
            iv.value = np.float64(arr[0, c])
        elif setter == "pyint" and np.isfinite(arr[0, c]) and float(arr[0, c]).is_integer() and abs(arr[0, c]) < 2.0**53:
            # (a Python int beyond int64 would turn every NumPy result into an object array: not a numeric input any more)
            iv.value = int(arr[0, c])  # users write `variable.value = 1`
        else:
            iv.value = float(arr[0, c])


def components(engine) -> list:
    out = []
    for b in engine.rule_blocks:
        out += [c for c in (b.conjunction, b.disjunction, b.implication, b.activation) if c is not None]
    for v in engine.output_variables:
        out += [c for c in (v.aggregation, v.defuzzifier) if c is not None]
    for v in engine.input_variables + engine.output_variables:
        out += list(v.terms)
    return out


def process_with(engine, inj: dict | None) -> tuple[str | None, bool]:
    """engine.process() under an injector; the configuration is restored afterwards.
    Returns (exception class name or None, injector fired)."""
    restore = None
    ctx = None
    fired = False
    if inj:
        k = inj["kind"]
        if k == "faulty":
            comps = components(engine)
            ctx = Armed(comps[inj["comp"] % len(comps)], inj["n"], inj["exc"])
        elif k == "none_op":
            where = inj["where"]
            if where[0] == "block":
                obj, attr = engine.rule_blocks[where[1] % len(engine.rule_blocks)], where[2]
            else:
                obj, attr = engine.output_variables[where[1] % len(engine.output_variables)], where[2]
            saved = getattr(obj, attr)
            setattr(obj, attr, None)

            def restore(obj=obj, attr=attr, saved=saved):
                setattr(obj, attr, saved)
        elif k == "linear_arity":
            lin = [t for v in engine.variables for t in v.terms if isinstance(t, fl.Linear) and len(t.coefficients) >= 1]
            if lin:
                t = lin[inj["comp"] % len(lin)]
                extra = [0.5, 0.5]
                t.coefficients.extend(extra)  # in place

                def restore(t=t):
                    del t.coefficients[-2:]
        elif k == "vector":
            saved = [iv.value for iv in engine.input_variables]
            for iv in engine.input_variables:
                iv.value = np.array([0.25, 0.75])

            def restore(saved=saved):
                for iv, s in zip(engine.input_variables, saved):
                    iv.value = s
        elif k == "fptrap":
            ctx = FpTrap()
        else:
            raise AssertionError(k)
    exc = None
    try:
        if ctx is not None:
            ctx.__enter__()
        try:
            engine.process()
        except BaseException as e:  # noqa: BLE001
            if not isinstance(e, Exception) and not getattr(e, "_sim_injected", False):
                raise
            exc = type(e).__name__
    finally:
        if ctx is not None:
            ctx.__exit__(None, None, None)
            fired = bool(getattr(ctx, "fired", exc is not None))
        if restore:
            restore()
        np.seterr(all="ignore")
    if inj and inj["kind"] in ("none_op", "linear_arity", "vector"):
        fired = exc is not None
    return exc, fired


def gen_injector(rng, spec: dict, vector_ok: bool) -> dict:
    from .core import EXC_NAMES
    k = rng.choice(["faulty", "faulty", "faulty", "none_op", "none_op", "linear_arity", "vector", "fptrap"])
    if k == "vector" and vector_ok:
        k = "faulty"
    if k == "faulty":
        # bias towards components that are certainly called (block operators, aggregation, defuzzifier come first)
        return {"kind": k, "comp": rng.choice([rng.randrange(8), rng.randrange(8), rng.randrange(256)]),
                "n": rng.choice([1, 1, 1, 2, 2, 3, 5, 9]), "exc": rng.choice(EXC_NAMES)}
    if k == "none_op":
        if rng.random() < 0.6:
            return {"kind": k, "where": ["block", rng.randrange(4), rng.choice(["conjunction", "disjunction", "implication", "activation"])]}
        return {"kind": k, "where": ["out", rng.randrange(4), rng.choice(["aggregation", "defuzzifier"])]}
    if k == "linear_arity":
        return {"kind": k, "comp": rng.randrange(8)}
    return {"kind": k}


def apply_replace_term_spec(spec: dict, op: dict) -> None:
    v = svar_of(spec, op["var"])
    if not v["terms"]:
        return
    ti = op["ti"] % len(v["terms"])
    new = copy.deepcopy(op["term"])
    new["name"] = v["terms"][ti]["name"]
    v["terms"][ti] = new


def apply_replace_term(engine, op: dict, spec_after: dict) -> None:
    """Swap a term object for a new one with the same name (engine reference set the way a user would)."""
    v = var_of(engine, op["var"])
    sv = svar_of(spec_after, op["var"])
    if not v.terms:
        return
    ti = op["ti"] % len(v.terms)
    S._INT_PARAMS[0] = bool(spec_after.get("flags", {}).get("int_params"))
    try:
        term = S.build_term(sv["terms"][ti])
    finally:
        S._INT_PARAMS[0] = False
    term.update_reference(engine)
    v.terms[ti] = term


# ---------------------------------------------------------------------------- generic disjointness of object graphs
import collections as _collections
import functools as _functools
import enum as _enum
import types as _types

_ATOMIC = (str, bytes, int, float, complex, bool, type(None), _enum.Enum, type, _types.FunctionType, _types.BuiltinFunctionType,
           _types.MethodType, _types.ModuleType, np.ufunc, np.dtype, np.generic)


def reachable_objects(engine) -> dict[int, str]:
    """ids (with a path for diagnostics) of every mutable object reachable from an engine through attributes,
    lists, dicts, sets, deques and tuples: fuzzylite component objects, containers and ndarrays."""
    seen: dict[int, str] = {}
    walked_callables: set[int] = set()
    stack = [(engine, "engine")]
    while stack:
        o, path = stack.pop()
        if id(o) in seen or id(o) in walked_callables:
            continue
        if isinstance(o, (_types.FunctionType, _types.MethodType, _functools.partial)):
            # functions are shared by deepcopy (and may be); what a closure, a bound method or a partial *holds* may not
            for j, cell in enumerate(getattr(o, "__closure__", None) or ()):
                try:
                    stack.append((cell.cell_contents, f"{path}.<closure {j}>"))
                except ValueError:
                    pass
            if isinstance(o, _types.MethodType):
                stack.append((o.__self__, f"{path}.__self__"))
            if isinstance(o, _functools.partial):
                stack.append((o.func, f"{path}.func"))
                stack.append((o.args, f"{path}.args"))
                stack.append((o.keywords, f"{path}.keywords"))
            walked_callables.add(id(o))
            continue
        if isinstance(o, _ATOMIC):
            continue
        if isinstance(o, np.ndarray):
            seen[id(o)] = path
            continue
        if isinstance(o, (list, tuple, set, frozenset, _collections.deque)):
            if not isinstance(o, (tuple, frozenset)):
                seen[id(o)] = path
            for i, x in enumerate(o):
                stack.append((x, f"{path}[{i}]"))
            continue
        if isinstance(o, dict):
            seen[id(o)] = path
            for k, x in o.items():
                stack.append((x, f"{path}[{k!r}]"))
            continue
        mod = getattr(type(o), "__module__", "") or ""
        if mod.startswith(("fuzzylite", "simkit", "sims")) and not isinstance(o, type):
            if attrs(o):  # an object without attributes (Minimum(), General(), Very()) holds no state that could be shared
                seen[id(o)] = path
            for k, x in attrs(o).items():
                if k == "_sim_fault":
                    continue
                stack.append((x, f"{path}.{k}"))
    return seen


def shared_objects(a, b) -> str:
    """'' when the object graphs of two engines are disjoint, else the first shared object's paths."""
    ra, rb = reachable_objects(a), reachable_objects(b)
    common = set(ra) & set(rb)
    if not common:
        return ""
    i = sorted(common, key=lambda x: ra[x])[0]
    return f"{ra[i]} is the same object as {rb[i]}"
