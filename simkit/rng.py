"""One integer decides everything: per-run PRNG derived from (VERIF_SEED, property, run index)."""
from __future__ import annotations

import hashlib
import random


def derive(*parts) -> int:
    h = hashlib.sha256("/".join(str(p) for p in parts).encode()).digest()
    return int.from_bytes(h[:8], "big")


def run_rng(verif_seed: int, prop: str, run: int) -> random.Random:
    return random.Random(derive("verif", verif_seed, prop, run))


class Digest:
    """Running SHA-256 over canonical event-log lines."""

    def __init__(self) -> None:
        self._h = hashlib.sha256()
        self.lines = 0

    def add(self, line: str) -> None:
        self._h.update(line.encode("utf-8", "backslashreplace"))
        self._h.update(b"\n")
        self.lines += 1

    def hex(self) -> str:
        return self._h.hexdigest()[:24]
