"""Environment seam: import fuzzylite from the working tree under test, pin global state.

Every check imports this module first.  `VERIF_REPO` (default /repo) selects the tree; the editable
install in /venv points at /repo, so an explicit sys.path[0] entry is what lets mutation self-tests
point the same harness at a scratch copy.
"""
from __future__ import annotations

import logging
import os
import sys
import warnings

sys.dont_write_bytecode = True

REPO = os.path.realpath(os.environ.get("VERIF_REPO", "/repo"))
VERIF = os.path.dirname(os.path.dirname(os.path.abspath(__file__)))
if sys.path[0] != REPO:
    sys.path.insert(0, REPO)

import numpy as np  # noqa: E402

import fuzzylite as fl  # noqa: E402

_src = os.path.realpath(os.path.dirname(fl.__file__))
if not _src.startswith(REPO + os.sep):
    raise SystemExit(f"HARNESS-ERROR fuzzylite imported from {_src}, expected under {REPO}")
FL_DIR = _src

# quiet, deterministic host environment: the library itself does np.seterr(invalid/divide=ignore)
warnings.simplefilter("ignore")
np.seterr(all="ignore")

DEFAULTS = {
    "float_type": np.float64,
    "decimals": 3,
    "atol": 1e-03,
    "rtol": 0.0,
    "alias": "fl",
}
_LOGGER = logging.getLogger("fuzzylite")
_LOGGER.setLevel(logging.ERROR)
# the library calls logging.basicConfig() at import: keep its debug mode (used as a fault-free flavour) off the console
_LOGGER.propagate = False
_LOGGER.addHandler(logging.NullHandler())
_FM = fl.settings.factory_manager  # touch once: laziness must not blur identity later


RESETTERS: list = []  # further process-global state owned by the harness (reset before every trace)


def reset_settings() -> None:
    """Put the process-wide settings singleton back to its documented defaults (and assert it)."""
    for f in RESETTERS:
        f()
    s = fl.settings
    for k, v in DEFAULTS.items():
        setattr(s, k, v)
    s.logger = _LOGGER
    s._factory_manager = _FM
    np.seterr(all="ignore")
    # (read back as a user would: a tree under test may store its settings differently - properties, private attributes)
    assert s.float_type is np.float64 and s.decimals == 3 and s.alias == "fl", (s.float_type, s.decimals, s.alias)
    if getattr(s, "debugging", False):  # however the tree under test stores its debug mode, leave it off
        s.debugging = False


def default_logger() -> logging.Logger:
    return _LOGGER


def default_factory_manager():
    return _FM
