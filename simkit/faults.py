"""Fault injectors, all through existing seams (public extension points, plain attributes, sys.settrace)."""
from __future__ import annotations

import sys
from typing import Any

import numpy as np

from . import env
from .core import SimCrash, make_exc

fl = env.fl

_METHOD = [(fl.Norm, "compute"), (fl.Term, "membership"), (fl.Defuzzifier, "defuzzify"), (fl.Hedge, "hedge"),
           (fl.Activation, "activate")]
_CACHE: dict[type, type] = {}


def _method_of(obj: Any) -> str:
    for base, name in _METHOD:
        if isinstance(obj, base):
            return name
    raise TypeError(type(obj))


def faulty_class(cls: type) -> type:
    """Dynamic subclass with the *same class name*, delegating to the real method and raising the armed
    exception on its n-th call."""
    if cls in _CACHE:
        return _CACHE[cls]
    for base, name in _METHOD:
        if issubclass(cls, base):
            meth = name
            break
    else:
        raise TypeError(cls)
    real = getattr(cls, meth)

    def wrapper(self, *a, **kw):
        f = self.__dict__.get("_sim_fault")
        if f is not None:
            f["calls"] += 1
            if f.get("on_call") is not None and a:
                f["on_call"](a[0])
            if f["calls"] == f["n"]:
                f["fired"] = True
                if f.get("snapshot") is not None and a:
                    f["snapshot"](a[0])
                raise f["exc"]
            result = real(self, *a, **kw)
            f["returned"] = f.get("returned", 0) + 1
            return result
        return real(self, *a, **kw)

    sub = type(cls.__name__, (cls,), {meth: wrapper, "__module__": cls.__module__, "_sim_real_class": cls})
    _CACHE[cls] = sub
    return sub


class Armed:
    """Context manager: swap obj.__class__ to its faulty subclass for the duration, armed to raise
    `kind` at the n-th call of its working method; restores class and attributes on exit."""

    def __init__(self, obj: Any, n: int, kind: str, snapshot=None, on_call=None) -> None:
        self.obj, self.n, self.kind = obj, n, kind
        self.exc = make_exc(kind, "component")
        self.state = {"calls": 0, "n": n, "exc": self.exc, "fired": False, "snapshot": snapshot, "on_call": on_call}

    def __enter__(self):
        self.orig = self.obj.__class__
        self.obj.__class__ = faulty_class(self.orig)
        self.obj.__dict__["_sim_fault"] = self.state
        return self

    def __exit__(self, *a):
        self.obj.__dict__.pop("_sim_fault", None)
        self.obj.__class__ = self.orig
        return False

    @property
    def fired(self) -> bool:
        return self.state["fired"]


class FpTrap:
    """Run one op as a host program under np.errstate(all='raise') would: the first overflow / invalid /
    divide raises FloatingPointError at a data-dependent point deep inside library code."""

    def __enter__(self):
        self.old = np.seterr(all="raise")
        return self

    def __exit__(self, *a):
        np.seterr(**self.old)
        return False


class LineCrasher:
    """sys.settrace based crash: raise SimCrash at the n-th `line` event in frames of fuzzylite code."""

    def __init__(self, n: int, exclude: tuple[tuple[str, str], ...] = ()) -> None:
        self.n, self.count, self.fired = n, 0, False
        self.exclude = exclude
        self.where = ""

    def _local(self, frame, event, arg):  # noqa: ARG002
        if event == "line":
            self.count += 1
            if self.count == self.n:
                self.fired = True
                self.where = f"{frame.f_code.co_filename.rsplit('/', 1)[-1]}:{frame.f_code.co_name}"
                sys.settrace(None)
                raise SimCrash("injected:line")
        return self._local

    def _global(self, frame, event, arg):  # noqa: ARG002
        code = frame.f_code
        if not code.co_filename.startswith(env.FL_DIR):
            return None
        for fn, name in self.exclude:
            if code.co_name == name and code.co_filename.endswith(fn):
                return None
        return self._local

    def __enter__(self):
        sys.settrace(self._global)
        return self

    def __exit__(self, *a):
        sys.settrace(None)
        return False
