"""Evidence writer: /verif/evidence/<id>.json per EVIDENCE.schema.json, rewritten on every run."""
from __future__ import annotations

import json
import os

from . import env
from .canon import jsonable


def write(sim, tier, seed, wall, evals, runs_done, runs_planned, distinct, samples, stats, violations,
          known, errors, timeouts, batch_digest, workers, zero_probes) -> None:
    ops = int(stats.get("ops", 0))
    cov = {
        "evaluations": int(evals),
        "distinct_nontrivial": int(distinct),
        "rule": sim.rule,
        "samples": jsonable(samples[:3]) or [{"note": "no non-trivial sample recorded"}],
        "exhaustive": False,
        "runs_done": int(runs_done),
        "runs_planned": int(runs_planned),
        "runs_per_hour": int(evals / wall * 3600) if wall > 0 else 0,
        "ops_executed_logical_time": ops,
        "ops_per_hour": int(ops / wall * 3600) if wall > 0 else 0,
        "simulated_time_note": "no clock in any claimed surface: simulated time is logical, one tick per executed op",
        "faults_fired": stats.group("faults"),
        "probes": stats.group("probes"),
        "probes_never_hit": zero_probes,
        "outcome_classes": stats.group("outcomes"),
        "arms": stats.group("arms"),
        "enumeration": stats.group("enum"),
        "component_classes_exercised": stats.group("classes"),
        "real_vs_stub": sim.real_vs_stub,
        "known_findings_matched": known,
        "harness_errors": len(errors),
        "timeouts": int(timeouts),
        "batch_digest": batch_digest,
        "workers": workers,
        "repo": env.REPO,
    }
    doc = {
        "property_id": sim.pid,
        "tier": tier,
        "seed": int(seed),
        "level": sim.level,
        "coverage": cov,
        "assumptions": sim.assumptions,
        "wall_s": round(wall, 3),
        "violations": len(violations),
    }
    d = os.path.join(env.VERIF, "evidence")
    os.makedirs(d, exist_ok=True)
    tmp = os.path.join(d, f".{sim.pid}.json.tmp")
    with open(tmp, "w") as f:
        json.dump(doc, f, indent=1, allow_nan=False)
    os.replace(tmp, os.path.join(d, f"{sim.pid}.json"))
