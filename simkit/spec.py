"""EngineSpec: JSON description of an engine, swarm generator, builder through public constructors.

spec = {name, inputs:[var], outputs:[ovar], blocks:[block], flags:{...}}
var   = {name, min, max, lock_range, enabled, terms:[term]}
ovar  = var + {lock_previous, default, aggregation: cls|None, defuzzifier: {cls, resolution|type}|None, family}
term  = {cls, name, args:{kwarg: float | [floats] | str | {str: float}}}
block = {name, enabled, conjunction, disjunction, implication: cls|None, activation:{cls, ...}|None, rules:[rule]}
rule  = {ant: ast, con:[prop], weight: float|None, enabled}   (text is rendered by rule_text())
ast   = {op:"and"|"or", l:ast, r:ast, paren:bool} | prop
prop  = {var, hedges:[...], term: name|None}        (term None only after hedge `any`)

All floats are stored JSON-safe through canon.fenc and decoded with canon.fdec.
"""
from __future__ import annotations

import copy
import math
from typing import Any

import numpy as np

from . import env
from .canon import fdec, fenc

fl = env.fl
inf = math.inf
nan = math.nan

SHAPES = ["Arc", "Bell", "Binary", "Concave", "Cosine", "Discrete", "Gaussian", "GaussianProduct", "PiShape", "Ramp",
          "Rectangle", "SemiEllipse", "Sigmoid", "SigmoidDifference", "SigmoidProduct", "Spike", "SShape", "Trapezoid",
          "Triangle", "ZShape"]
MONOTONIC = ["Arc", "Concave", "Ramp", "Sigmoid", "SShape", "ZShape"]
NONMONO = [s for s in SHAPES if s not in MONOTONIC]
# (the last entry of each list is a user-defined subclass registered in the factory under its class name, see USER_COMPONENTS)
TNORMS = ["AlgebraicProduct", "BoundedDifference", "DrasticProduct", "EinsteinProduct", "HamacherProduct", "Minimum",
          "NilpotentMinimum", "UserProduct"]
SNORMS = ["AlgebraicSum", "BoundedSum", "DrasticSum", "EinsteinSum", "HamacherSum", "Maximum", "NilpotentMaximum",
          "NormalizedSum", "UnboundedSum", "UserProbOr"]
HEDGES = ["any", "extremely", "not", "seldom", "somewhat", "very"]
# the public extension points: a hedge that wraps a Python callable and one that owns a Function term, registered by name
# in the default hedge factory (as a user would) so that rule texts can use them
EXT_HEDGES = ["squared", "rooted", "userhalf"]  # userhalf: a user-defined Hedge subclass registered as a class
INTEGRAL = ["Bisector", "Centroid", "LargestOfMaximum", "MeanOfMaximum", "SmallestOfMaximum", "UserCentroid"]
WEIGHTED = ["WeightedAverage", "WeightedSum", "UserWeightedAverage"]
ACTIVATIONS = ["General", "First", "Last", "Highest", "Lowest", "Proportional", "Threshold", "UserGeneral"]
GENERAL = ["General", "General", "General", "UserGeneral"]  # the General activation method and a user-defined subclass of it
COMPARATORS = ["<", "<=", "==", "!=", ">=", ">"]

# formulas over input variable names ({a}, {b}) and x; together they use every registered operator / function
FORMULAS_AB = [
    "{a} * 0.5 + 0.1", "0.3 * {a} - 0.2 * {b} + 1.0", "sin({a}) + cos({b})", "{a} ^ 2 + {b} ** 2", "{a} % 0.3 + 0.1",
    "atan2({a}, {b})", "~{a} + .+{b}", "ge({a}, 0.5) * 0.3 + lt({b}, 0.5) * 0.7", "abs({a} - {b})", "exp(.-{a} * {a})",
    "log(abs({a}) + 1.0) + log10(abs({b}) + 1.0) + log1p(abs({a}))", "sqrt(abs({a})) / (abs({b}) + 1.0)",
    "tanh({a}) + sinh({b} / 10.0) + cosh({a} / 10.0)", "floor({a} * 4.0) / 4.0 + ceil({b}) + round({a})",
    "pow({a}, 2.0) + fmod({b}, 0.7) + fabs({a})", "acos(tanh({a})) + asin(tanh({b})) + atan({a})",
    "asinh({a}) + acosh(1.0 + abs({b})) + atanh(tanh({a}) / 2.0)", "gt({a}, {b}) + le({a}, {b}) * 2.0 + eq({a}, {b}) + neq({a}, 0.0)",
    "pi * {a} + tan({b} / 10.0)", "({a} + {b}) / 2.0", "{a} / {b}", "x * {a} + (1.0 - x) * {b}", "min({a}, 0.5) + max({b}, 0.25)",
    ".-{a} * 2.0", "!gt({a}, 0.5) + 0.0", "{a} ^ {b}", "{a} ** {b} + 1.0", "pow({a}, {b})", "({a} * 1e200) ^ 2", "gt({a}, 0.2) and lt({b}, 0.8)", "gt({a}, 0.7) or gt({b}, 0.7)",
    "gain0 * {a}", "gain0 * {a} + {b}",
]
FORMULAS_X = ["x", "x", "x", "x * 0.5", "1.0 - x", "gt(x, 0.5)", "exp(.-((x - 0.5) * (x - 0.5) * 8.0))", "abs(sin(x * 3.0))", "x ^ 2", "min(x, 0.5)",
              "x / (1.0 + abs(x))", "k * x", "gain0 * x"]
FORMULAS_OUT = ["{o} * 0.5 + {a}", "{a} - {o}"]


def C(rng, seq):
    return seq[rng.randrange(len(seq))]


# ---------------------------------------------------------------------------- term generation
def _pts(rng, lo: float, hi: float, n: int, sort: bool = True, strict: bool = False) -> list[float]:
    w = hi - lo
    out = []
    for _ in range(n):
        r = rng.random()
        if r < 0.08:
            v = lo
        elif r < 0.16:
            v = hi
        elif r < 0.28:
            v = lo - w * rng.random() * 0.4
        elif r < 0.40:
            v = hi + w * rng.random() * 0.4
        elif r < 0.46 and out and not strict:
            v = C(rng, out)  # degenerate (vertical) edge
        else:
            v = lo + w * rng.random()
        out.append(round(v, 6) if rng.random() < 0.7 else v)
    if sort:
        out.sort()
    return out


def gen_term_args(rng, cls: str, lo: float, hi: float) -> dict[str, Any]:
    w = hi - lo
    h = 1.0 if rng.random() < 0.75 else C(rng, [0.25, 0.5, 0.8, 0.999, 0.9995, 1.5])  # 1.5: not a valid height, but storable
    a: dict[str, Any]
    if cls in ("Arc", "Concave", "Ramp"):
        p = _pts(rng, lo, hi, 2, strict=True)
        if rng.random() < 0.5:
            p.reverse()
        keys = {"Arc": ("start", "end"), "Concave": ("inflection", "end"), "Ramp": ("start", "end")}[cls]
        a = dict(zip(keys, p))
    elif cls in ("Rectangle", "SemiEllipse", "SShape", "ZShape"):
        a = dict(zip(("start", "end"), _pts(rng, lo, hi, 2)))
    elif cls == "Triangle":
        a = dict(zip(("left", "top", "right"), _pts(rng, lo, hi, 3)))
        if rng.random() < 0.05:  # infinite shoulder
            a[C(rng, ["left", "right"])] = C(rng, [-inf, inf]) if rng.random() < 0.2 else None
            a = {k: ((-inf if k == "left" else inf) if v is None else v) for k, v in a.items()}
    elif cls in ("Trapezoid", "PiShape"):
        a = dict(zip(("bottom_left", "top_left", "top_right", "bottom_right"), _pts(rng, lo, hi, 4)))
        if cls == "Trapezoid" and rng.random() < 0.05:
            if rng.random() < 0.5:
                a["bottom_left"] = a["top_left"] = -inf
            else:
                a["bottom_right"] = a["top_right"] = inf
    elif cls == "Bell":
        a = {"center": _pts(rng, lo, hi, 1)[0], "width": w * C(rng, [0.05, 0.2, 0.5]), "slope": C(rng, [1.0, 2.0, 3.5, -2.0])}
    elif cls in ("Cosine", "Spike"):
        a = {"center": _pts(rng, lo, hi, 1)[0], "width": w * C(rng, [0.1, 0.4, 1.0, 2.5])}
    elif cls == "Gaussian":
        a = {"mean": _pts(rng, lo, hi, 1)[0], "standard_deviation": w * C(rng, [0.05, 0.15, 0.5])}
    elif cls == "GaussianProduct":
        p = _pts(rng, lo, hi, 2)
        a = {"mean_a": p[0], "standard_deviation_a": w * C(rng, [0.05, 0.2]), "mean_b": p[1],
             "standard_deviation_b": w * C(rng, [0.05, 0.2])}
    elif cls == "Sigmoid":
        a = {"inflection": _pts(rng, lo, hi, 1)[0], "slope": C(rng, [-1, 1]) * C(rng, [0.5, 5.0, 30.0]) / w}
    elif cls in ("SigmoidDifference", "SigmoidProduct"):
        p = _pts(rng, lo, hi, 2)
        s = C(rng, [2.0, 10.0, 40.0]) / w
        a = {"left": p[0], "rising": s, "falling": s if cls == "SigmoidDifference" else -s, "right": p[1]}
    elif cls == "Binary":
        a = {"start": _pts(rng, lo, hi, 1)[0], "direction": C(rng, [inf, -inf])}
    elif cls == "Discrete":
        n = rng.randint(2, 6)
        xs = sorted(set(_pts(rng, lo, hi, n, strict=True)))
        a = {"values": [v for x in xs for v in (x, round(rng.random(), 3) if rng.random() < 0.8 else C(rng, [0.0, 1.0]))]}
    elif cls == "DomainRamp":
        a = dict(zip(("start", "end"), _pts(rng, lo + 0.3 * w, hi, 2, strict=True)))
    elif cls == "InputGain":
        a = {"gain": C(rng, [0.5, 1.0, 2.0])}
    elif cls == "Constant":
        v = C(rng, [lo, hi, lo + w * rng.random(), lo - w * 0.5, hi + w * 0.5, lo + w * rng.random()])
        return {"value": fenc(v)}
    else:
        raise AssertionError(cls)
    a["height"] = h
    return {k: ([fenc(x) for x in v] if isinstance(v, list) else fenc(v)) for k, v in a.items()}


def gen_function(rng, names_in: list[str], names_out: list[str], over_x: bool) -> dict[str, Any]:
    if over_x:
        f = C(rng, FORMULAS_X)
        a = {"formula": f, "variables": {"k": fenc(C(rng, [0.5, 2.0]))} if "k *" in f else {}}
        if a["variables"] and rng.random() < 0.4:
            a["array_variables"] = True  # Scalar = float | ndarray: the values may be (0-d) arrays, i.e. mutable objects
        return a
    if names_out and rng.random() < 0.5:
        f = C(rng, FORMULAS_OUT).format(a=C(rng, names_in), o=C(rng, names_out))
        return {"formula": f, "variables": {}}
    f = C(rng, FORMULAS_AB).format(a=C(rng, names_in), b=C(rng, names_in))
    return {"formula": f, "variables": {}}


def gen_term(rng, cls: str, name: str, lo: float, hi: float, names_in: list[str], names_out: list[str], over_x: bool) -> dict:
    if cls == "Function":
        return {"cls": cls, "name": name, "args": gen_function(rng, names_in, names_out, over_x)}
    if cls == "Linear":
        n = len(names_in) + (1 if rng.random() < 0.7 else 0)
        return {"cls": cls, "name": name, "args": {"coefficients": [fenc(round(rng.uniform(-2, 2), 3)) for _ in range(n)]}}
    return {"cls": cls, "name": name, "args": gen_term_args(rng, cls, lo, hi)}


# ---------------------------------------------------------------------------- rule generation
def gen_prop(rng, var: dict, max_hedges: int, allow_any: bool) -> dict:
    nh = 0 if rng.random() < 0.55 else rng.randint(1, max(1, max_hedges))
    hedges = [C(rng, EXT_HEDGES) if rng.random() < 0.08 else C(rng, HEDGES[1:]) for _ in range(nh)] if max_hedges else []
    if allow_any and rng.random() < 0.06:
        return {"var": var["name"], "hedges": hedges + ["any"], "term": None}
    return {"var": var["name"], "hedges": hedges, "term": C(rng, var["terms"])["name"]}


def gen_ast(rng, vars_: list[dict], depth: int, max_hedges: int) -> dict:
    if depth <= 0 or rng.random() < 0.35:
        return gen_prop(rng, C(rng, vars_), max_hedges, True)
    return {"op": C(rng, ["and", "or"]), "l": gen_ast(rng, vars_, depth - 1, max_hedges),
            "r": gen_ast(rng, vars_, depth - 1, max_hedges), "paren": rng.random() < 0.2}


def prop_text(p: dict) -> str:
    parts = [p["var"], "is"] + list(p["hedges"])
    if p["term"] is not None:
        parts.append(p["term"])
    return " ".join(parts)


def ast_text(a: dict, parent: str | None = None, right: bool = False) -> str:
    if "op" not in a:
        return prop_text(a)
    s = f"{ast_text(a['l'], a['op'], False)} {a['op']} {ast_text(a['r'], a['op'], True)}"
    need = a.get("paren") or (parent == "and" and a["op"] == "or") or (right and parent is not None)
    return f"( {s} )" if need else s


def rule_text(r: dict) -> str:
    t = f"if {ast_text(r['ant'])} then " + " and ".join(prop_text(c) for c in r["con"])
    if r.get("weight") is not None:
        t += f" with {fdec(r['weight'])!r}"
    return t


def ast_vars(a: dict) -> set[str]:
    if "op" in a:
        return ast_vars(a["l"]) | ast_vars(a["r"])
    return {a["var"]}


# ---------------------------------------------------------------------------- engine generation
DEFAULT_KNOBS = {
    "activations": ["General"], "fn_reads_output": False, "max_inputs": 3, "max_outputs": 2, "max_blocks": 2,
    "max_rules": 6, "depth": 3, "max_hedges": 2, "outputs_in_antecedents": True, "mixed_types": 0.02,
    "cascade": True, "disabled": 0.08, "input_lock_range": 0.15, "user_terms": [], "many_inputs": 0.0,
}


def gen_spec(rng, **knobs) -> dict:
    k = dict(DEFAULT_KNOBS, **knobs)
    # swarm: per-run subsets of the component classes
    shapes = rng.sample(SHAPES, rng.randint(3, len(SHAPES)))
    tn = rng.sample(TNORMS, rng.randint(1, len(TNORMS)))
    sn = rng.sample(SNORMS, rng.randint(1, len(SNORMS)))
    n_in = rng.randint(1, k["max_inputs"])
    n_out = rng.randint(1, k["max_outputs"])
    # identifier pools (never keywords, hedges, registered function names, `x` or `k`): one-letter names, names
    # containing a keyword as a substring, mixed case, digits, underscores
    in_pool = C(rng, [["i0", "i1", "i2"], ["i0", "i1", "i2"], ["temp", "press", "flow"], ["x1", "x2", "x3"], ["A", "B", "C"],
                      ["s", "t", "u"], ["island", "thenar", "iffy"], ["in_1", "in_2", "in_3"], ["Ambient", "Speed", "Load"]])
    out_pool = C(rng, [["o0", "o1"], ["o0", "o1"], ["y", "z"], ["Power", "Valve"], ["out_1", "out_2"], ["w", "v"], ["result", "andy"]])
    in_terms = C(rng, ["abcdef", "abcdef", ["low", "mid", "high", "vhigh", "peak", "none_"], ["S", "M", "L", "XL", "XXL", "Z"],
                       ["t1", "t2", "t3", "t4", "t5", "t6"], ["is_low", "not_so", "very_hi", "orb", "withal", "anyone"]])
    out_terms = C(rng, ["pqrstu", "pqrstu", ["cheap", "fair", "dear", "lux", "max_", "min_"], ["N", "P", "Q", "R", "T", "U"],
                        ["c1", "c2", "c3", "c4", "c5", "c6"]])
    if k.get("many_inputs") and rng.random() < k["many_inputs"]:
        # a wide engine (8..12 inputs): NumPy sums 8 or more numbers pairwise, fewer in order; reductions over the inputs
        # (Linear terms, the input matrix) meet both regimes only with this many inputs
        n_in = rng.randint(8, 12)
        in_pool = [f"i{j}" for j in range(12)]
    names_in = in_pool[:n_in]
    names_out = out_pool[:n_out]
    inputs = []
    for j in range(n_in):
        lo, hi = C(rng, [(0.0, 1.0), (0.0, 1.0), (-1.0, 1.0), (-10.0, 30.0), (0.0, 255.0)])
        terms = []
        for t in range(rng.randint(1, 4) if n_in <= 3 else rng.randint(1, 2)):
            r = rng.random()
            cls = C(rng, shapes) if r < 0.9 else ("Function" if r < 0.96 else "Constant")
            if k["user_terms"] and rng.random() < 0.04:
                cls = C(rng, k["user_terms"])  # a user-defined Term subclass (the documented extension point)
            terms.append(gen_term(rng, cls, in_terms[t], lo, hi, names_in, [], True))
        rlo, rhi = (lo, hi) if rng.random() > 0.06 else C(rng, [(-inf, inf), (lo, inf), (-inf, hi)])  # terms stay in the finite window
        inputs.append({"name": names_in[j], "min": fenc(rlo), "max": fenc(rhi), "lock_range": rng.random() < k["input_lock_range"],
                       "enabled": rng.random() >= k["disabled"], "terms": terms})
    outputs = []
    for j in range(n_out):
        lo, hi = C(rng, [(0.0, 1.0), (0.0, 1.0), (-1.0, 1.0), (-5.0, 20.0)])
        fam = rng.choices(["mamdani", "takagi", "tsukamoto", "inverse"], [50, 28, 12, 10])[0]
        terms = []
        nt = rng.randint(1, 4)
        for t in range(nt):
            if fam == "mamdani":
                r = rng.random()
                cls = C(rng, shapes) if r < 0.93 else ("Function" if r < 0.97 else "Constant")
                over_x = True
            elif fam == "takagi":
                cls = rng.choices(["Constant", "Linear", "Function"], [45, 30, 25])[0]
                over_x = False
            elif fam == "tsukamoto":
                cls = C(rng, MONOTONIC)
                over_x = True
            else:
                cls = C(rng, NONMONO)
                over_x = True
            if rng.random() < k["mixed_types"]:
                cls = C(rng, ["Constant", "Ramp", "Triangle"])
                over_x = True
            outs_ok = names_out if (k["fn_reads_output"] and fam == "takagi") else []
            terms.append(gen_term(rng, cls, out_terms[t], lo, hi, names_in, outs_ok, over_x))
        if fam == "mamdani":
            dz = {"cls": C(rng, INTEGRAL), "resolution": C(rng, [1, 2, 5, 10, 20, 50, 100, 200])}
            agg = C(rng, sn)
        else:
            typ = "Automatic" if rng.random() < 0.6 else {"takagi": "TakagiSugeno", "tsukamoto": "Tsukamoto", "inverse": "Automatic"}[fam]
            dz = {"cls": C(rng, WEIGHTED), "type": typ}
            agg = None if rng.random() < 0.5 else C(rng, sn)
            if rng.random() < 0.15:
                lo, hi = C(rng, [(-inf, inf), (-inf, inf), (lo, inf), (-inf, hi)])  # the library's default range is (-inf, inf)
        if rng.random() < k.get("missing_operators", 0.02):
            if rng.random() < 0.5:
                agg = None
            else:
                dz = None
        if k["cascade"]:
            flo, fhi = (lo if math.isfinite(lo) else -10.0), (hi if math.isfinite(hi) else 10.0)
            d = nan if rng.random() < 0.55 else C(rng, [flo, fhi, flo + (fhi - flo) * rng.random(), fhi + 1.0, flo - 1.0, inf, -inf])
            lp, lr = rng.random() < 0.4, rng.random() < 0.35
        else:
            d, lp, lr = nan, False, False
        outputs.append({"name": names_out[j], "min": fenc(lo), "max": fenc(hi), "lock_range": lr, "lock_previous": lp,
                        "default": fenc(d), "enabled": rng.random() >= k["disabled"], "aggregation": agg, "defuzzifier": dz,
                        "family": fam, "terms": terms})
    blocks = []
    for b in range(rng.randint(1, k["max_blocks"])):
        act_cls = C(rng, k["activations"])
        act: dict[str, Any] = {"cls": act_cls}
        if act_cls in ("First", "Last"):
            act.update(rules=rng.randint(0, 3), threshold=fenc(C(rng, [0.0, 0.1, 0.5])))
        elif act_cls in ("Highest", "Lowest"):
            act.update(rules=rng.randint(0, 3))
        elif act_cls == "Threshold":
            act.update(comparator=C(rng, COMPARATORS), threshold=fenc(C(rng, [0.0, 0.25, 0.5, 1.0])))
        rules = []
        for _ in range(rng.randint(1, k["max_rules"])):
            ant_vars = list(inputs)
            if k["outputs_in_antecedents"] and rng.random() < 0.2:
                ant_vars = ant_vars + outputs
            depth = rng.randint(0, k["depth"]) if rng.random() > 0.02 else 5  # rarely: a very long antecedent
            ant = gen_ast(rng, ant_vars, depth, k["max_hedges"])
            if rules and rng.random() < 0.12:
                ant = copy.deepcopy(rules[-1]["ant"])  # same antecedent as the rule before: exactly tied activation degrees
            ncon = 1 if rng.random() < 0.7 else min(2, n_out + 1)
            con = [gen_prop(rng, C(rng, outputs), 1 if rng.random() < 0.3 else 0, False) for _ in range(ncon)]
            rules.append({"ant": ant, "con": con, "weight": None if rng.random() < 0.7 else fenc(C(rng, [0.5, 0.25, 0.75, 0.1, 1.5, 0.0, 1.0, 0.3456, 0.12345678, 0.9995, 1.0004])),  # incl. more digits than `decimals` and values within atol of 1
                          "enabled": rng.random() >= k["disabled"]})
        blk = {"name": f"b{b}", "enabled": rng.random() >= k["disabled"] / 2, "conjunction": C(rng, tn),
               "disjunction": C(rng, sn), "implication": C(rng, tn), "activation": act, "rules": rules}
        if k.get("norm_functions") and rng.random() < 0.08:
            key = C(rng, ["conjunction", "disjunction", "implication"])
            blk[key] = "NormFunction:" + C(rng, NORM_FORMULAS_S if key == "disjunction" else NORM_FORMULAS_T)
            if rng.random() < 0.4:
                blk[key] = "NormLambda:" + C(rng, ["max", "psum"] if key == "disjunction" else ["mul", "min", "scaled:0.9", "scaled_method:0.75"])
        if rng.random() < k.get("missing_operators", 0.02):
            blk[C(rng, ["conjunction", "disjunction", "implication", "activation"])] = None
        blocks.append(blk)
    spec = {"name": "sim", "inputs": inputs, "outputs": outputs, "blocks": blocks}
    spec["flags"] = {"fn_reads_output": fn_reads_output(spec)}
    if rng.random() < 0.15:
        spec["flags"]["int_params"] = True
    return spec


def make_hybrid_output(rng, spec: dict) -> None:
    """Swarm variant: one output mixes two term families under an Automatic weighted defuzzifier, and the two
    families are concluded by rules whose antecedents have disjoint supports - so whether both families are
    *activated* depends on the row, and on the whole batch in vectorised mode."""
    iv = spec["inputs"][0]
    lo, hi = fdec(iv["min"]), fdec(iv["max"])
    w = hi - lo
    iv["terms"] = [t for t in iv["terms"] if t["name"] not in ("y", "z")][:3] + [
        {"cls": "Rectangle", "name": "y", "args": {"start": fenc(lo - w), "end": fenc(lo + 0.4 * w), "height": 1.0}},
        {"cls": C(rng, ["Rectangle", "Trapezoid"]), "name": "z", "args": {"start": fenc(lo + 0.6 * w), "end": fenc(hi + w), "height": 1.0}},
    ]
    if iv["terms"][-1]["cls"] == "Trapezoid":
        iv["terms"][-1]["args"] = {"bottom_left": fenc(lo + 0.6 * w), "top_left": fenc(lo + 0.7 * w), "top_right": fenc(hi + w),
                                   "bottom_right": fenc(hi + 2 * w), "height": 1.0}
    iv["enabled"] = True
    o = C(rng, spec["outputs"])
    olo, ohi = fdec(o["min"]), fdec(o["max"])
    o["defuzzifier"] = {"cls": C(rng, WEIGHTED), "type": "Automatic"}
    o["family"] = "hybrid"
    o["enabled"] = True
    second = C(rng, ["Triangle", "Ramp", "Sigmoid", "Gaussian"])
    o["terms"] = [{"cls": "Constant", "name": "p", "args": {"value": fenc(olo + 0.25 * (ohi - olo))}},
                  gen_term(rng, second, "q", olo, ohi, [], [], True)]
    b = spec["blocks"][0]
    b["enabled"] = True
    b["rules"] = [
        {"ant": {"var": iv["name"], "hedges": [], "term": "y"}, "con": [{"var": o["name"], "hedges": [], "term": "p"}], "weight": None, "enabled": True},
        {"ant": {"var": iv["name"], "hedges": [], "term": "z"}, "con": [{"var": o["name"], "hedges": [], "term": "q"}], "weight": None, "enabled": True},
    ]
    spec["blocks"] = [b]
    spec["flags"]["hybrid_output"] = True


def make_identity_chain(rng, spec: dict) -> None:
    """Swarm variant: an input term whose membership function is the identity (Function `x`), concluded by a plain
    weight-less rule `if <input> is <term> then ...` in first position - the configuration in which a value object
    handed in by the caller can travel unchanged through term, antecedent and rule (aliasing)."""
    iv = C(rng, spec["inputs"])
    iv["enabled"] = True
    name = "idt"
    iv["terms"] = [t for t in iv["terms"] if t["name"] != name][:3] + [{"cls": "Function", "name": name, "args": {"formula": "x", "variables": {}}}]
    b = C(rng, spec["blocks"])
    b["enabled"] = True
    o = C(rng, spec["outputs"])
    if o["terms"]:
        b["rules"].insert(0, {"ant": {"var": iv["name"], "hedges": [], "term": name},
                              "con": [{"var": o["name"], "hedges": [], "term": C(rng, o["terms"])["name"]}], "weight": None, "enabled": True})
    spec["flags"]["identity_chain"] = True


def fn_reads_output(spec: dict) -> bool:
    outs = {o["name"] for o in spec["outputs"]}
    for v in spec["inputs"] + spec["outputs"]:
        for t in v["terms"]:
            if t["cls"] == "Function":
                toks = set(_tokens(t["args"]["formula"]))
                if toks & outs:
                    return True
    return False


def _tokens(formula: str) -> list[str]:
    out, cur = [], ""
    for ch in formula:
        if ch.isalnum() or ch == "_":
            cur += ch
        else:
            if cur:
                out.append(cur)
            cur = ""
    if cur:
        out.append(cur)
    return out


# ---------------------------------------------------------------------------- builder
_INT_PARAMS = [False]


def _num(v):
    """Decode a spec number; with the int_params flavour integral values become Python ints (users write
    Triangle("low", 0, 5, 10) and minimum=0, maximum=1 far more often than 0.0, 5.0, 10.0)."""
    x = fdec(v)
    if _INT_PARAMS[0] and math.isfinite(x) and x == math.floor(x) and abs(x) < 2**31:
        return int(x)
    return x


class DomainRamp(fl.Term):
    """User-defined term: a ramp that validates its domain (values far below its start are a caller's mistake)."""

    def __init__(self, name: str = "", start: float = nan, end: float = nan, height: float = 1.0) -> None:
        super().__init__(name, height)
        self.start = start
        self.end = end

    def membership(self, x):
        x = fl.scalar(x)
        if np.any(x < self.start - 2.0 * abs(self.end - self.start)):
            raise ValueError(f"value outside the domain of term '{self.name}'")
        return self.height * np.clip((x - self.start) / (self.end - self.start), 0.0, 1.0)

    def parameters(self) -> str:
        return super()._parameters(self.start, self.end)

    def configure(self, parameters: str) -> None:
        self.start, self.end, self.height = self._parse(2, parameters)


class InputGain(fl.Term):
    """User-defined term that computes from the engine it belongs to (like Linear and Function it overrides
    `update_reference`): the value normalised by the range of the engine's first input variable, times a gain."""

    def __init__(self, name: str = "", gain: float = 1.0, height: float = 1.0) -> None:
        super().__init__(name, height)
        self.gain = gain
        self.engine = None

    def _attached_engine(self):
        if self.engine is None:
            raise ValueError(f"term '{self.name}' is not attached to an engine")
        return self.engine

    def membership(self, x):
        v = self._attached_engine().input_variables[0]
        x = fl.scalar(x)
        return self.height * np.clip(self.gain * (x - v.minimum) / (v.maximum - v.minimum), 0.0, 1.0)

    def update_reference(self, engine) -> None:
        self.engine = engine

    def parameters(self) -> str:
        return super()._parameters(self.gain)

    def configure(self, parameters: str) -> None:
        self.gain, self.height = self._parse(1, parameters)


class UserProduct(fl.TNorm):
    """User-defined t-norm written from the documentation of the extension point."""

    def compute(self, a, b):
        return fl.scalar(a) * fl.scalar(b)


class UserProbOr(fl.SNorm):
    def compute(self, a, b):
        a = fl.scalar(a)
        b = fl.scalar(b)
        return a + b - a * b


class Userhalf(fl.Hedge):  # the registered name is the lower-cased class name
    def hedge(self, x):
        return 0.5 * fl.scalar(x)


class UserCentroid(fl.Centroid):
    """Users specialise the shipped classes: nothing overridden, another class name (factory, exporter, importer, copy)."""


class UserWeightedAverage(fl.WeightedAverage):
    pass


class UserGeneral(fl.General):
    pass


USER_COMPONENTS = {"UserProduct": UserProduct, "UserProbOr": UserProbOr, "UserCentroid": UserCentroid,
                   "UserWeightedAverage": UserWeightedAverage, "UserGeneral": UserGeneral}
_fm = fl.settings.factory_manager
_fm.tnorm.constructors["UserProduct"] = UserProduct
_fm.snorm.constructors["UserProbOr"] = UserProbOr
_fm.hedge.constructors["userhalf"] = Userhalf
_fm.defuzzifier.constructors["UserCentroid"] = UserCentroid
_fm.defuzzifier.constructors["UserWeightedAverage"] = UserWeightedAverage
_fm.activation.constructors["UserGeneral"] = UserGeneral


def component_class(name: str):
    return USER_COMPONENTS.get(name) or getattr(fl, name)


USER_TERMS = {"DomainRamp": DomainRamp, "InputGain": InputGain}
for _n, _c in USER_TERMS.items():
    fl.settings.factory_manager.term.constructors[_n] = _c


def build_term(t: dict):
    cls = USER_TERMS.get(t["cls"]) or getattr(fl, t["cls"])
    a = t["args"]
    if t["cls"] == "Function":
        conv = (lambda v: np.array(fdec(v))) if a.get("array_variables") else fdec
        return cls(t["name"], a["formula"], variables={k: conv(v) for k, v in a.get("variables", {}).items()})
    if t["cls"] == "Linear":
        return cls(t["name"], [_num(c) for c in a["coefficients"]])
    if t["cls"] == "Discrete":
        vals = [fdec(v) for v in a["values"]]
        return cls(t["name"], fl.Discrete.to_xy(vals[0::2], vals[1::2]), height=fdec(a.get("height", 1.0)))
    return cls(t["name"], **{k: _num(v) for k, v in a.items()})


NORM_FORMULAS_T = ["a * b", "min(a, b)", "max(0.0, a + b - 1.0)"]
NORM_FORMULAS_S = ["a + b - a * b", "max(a, b)", "min(1.0, a + b)"]


def _sq(x):
    return x * x


def _mul(a, b):
    return a * b


class ScaledMin:
    """A stateful callable - a user's parametrised t-norm - to be wrapped in NormLambda (as the object itself or as its
    bound method): state that a copy of the engine must not share."""

    def __init__(self, p: float) -> None:
        self.p = p

    def __call__(self, a, b):
        return self.p * np.minimum(a, b)

    def compute(self, a, b):
        return self.p * np.minimum(a, b)


_GAIN = [1.0]  # the parameter of the user-defined zero-arity function element `gain0` (process-global, like the factory)


def set_gain(v: float) -> None:
    _GAIN[0] = float(v)


def _gain0():
    return _GAIN[0]


env.RESETTERS.append(lambda: set_gain(1.0))
fl.settings.factory_manager.function.objects["gain0"] = fl.Function.Element(
    "gain0", "user-defined parameter", "Function", _gain0, arity=0, precedence=100)


def uses_gain0(spec: dict) -> bool:
    return any("gain0" in str(t["args"].get("formula", "")) for v in spec["inputs"] + spec["outputs"] for t in v["terms"])


def _register_extension_hedges() -> None:
    f = fl.settings.factory_manager.hedge
    f.constructors["squared"] = lambda: fl.HedgeLambda("squared", _sq)
    f.constructors["rooted"] = lambda: fl.HedgeFunction(fl.Function.create("rooted", "sqrt(x)"))


_register_extension_hedges()
NORM_LAMBDAS = {"mul": _mul, "min": np.minimum, "max": np.maximum, "psum": lambda a, b: a + b - a * b}


def build_norm(name: str | None):
    """Registered norm by class name, or 'NormFunction:<formula over a and b>' - the public extension point: a norm
    that *owns a Function term* (an object with state that a copy must not share)."""
    if not name:
        return None
    if name.startswith("NormFunction:"):
        return fl.NormFunction(fl.Function.create("nf", name.split(":", 1)[1]))
    if name.startswith("NormLambda:scaled"):
        obj = ScaledMin(float(name.split(":")[2]))
        return fl.NormLambda(obj.compute if name.startswith("NormLambda:scaled_method") else obj)
    if name.startswith("NormLambda:"):
        return fl.NormLambda(NORM_LAMBDAS[name.split(":", 1)[1]])
    return component_class(name)()


def build_defuzzifier(d: dict | None):
    if not d:
        return None
    if "resolution" in d:
        return component_class(d["cls"])(resolution=int(d["resolution"]))
    return component_class(d["cls"])(type=d.get("type", "Automatic"))


def build_activation(a: dict | None):
    if not a:
        return None
    cls = component_class(a["cls"])
    if a["cls"] in ("First", "Last"):
        return cls(rules=int(a["rules"]), threshold=fdec(a["threshold"]))
    if a["cls"] in ("Highest", "Lowest"):
        return cls(rules=int(a["rules"]))
    if a["cls"] == "Threshold":
        return cls(comparator=a["comparator"], threshold=fdec(a["threshold"]))
    return cls()


def build(spec: dict):
    """Build an engine from a spec using only public constructors (Engine(...) loads terms and rules)."""
    _INT_PARAMS[0] = bool(spec.get("flags", {}).get("int_params"))
    try:
        return _build(spec)
    finally:
        _INT_PARAMS[0] = False


def _build(spec: dict):
    ins = [fl.InputVariable(name=v["name"], enabled=v["enabled"], minimum=_num(v["min"]), maximum=_num(v["max"]),
                            lock_range=v["lock_range"], terms=[build_term(t) for t in v["terms"]]) for v in spec["inputs"]]
    outs = [fl.OutputVariable(name=v["name"], enabled=v["enabled"], minimum=_num(v["min"]), maximum=_num(v["max"]),
                              lock_range=v["lock_range"], lock_previous=v["lock_previous"], default_value=_num(v["default"]),
                              aggregation=build_norm(v["aggregation"]), defuzzifier=build_defuzzifier(v["defuzzifier"]),
                              terms=[build_term(t) for t in v["terms"]]) for v in spec["outputs"]]
    blocks = []
    for b in spec["blocks"]:
        rules = []
        for r in b["rules"]:
            rule = fl.Rule.create(r["text"] if "text" in r else rule_text(r))
            if "text" in r and r.get("weight") is not None:
                rule.weight = fdec(r["weight"])  # (a literal text keeps the weight it was written with; later weight edits live in the spec)
            rule.enabled = r["enabled"]
            rules.append(rule)
        blocks.append(fl.RuleBlock(name=b["name"], enabled=b["enabled"], conjunction=build_norm(b["conjunction"]),
                                   disjunction=build_norm(b["disjunction"]), implication=build_norm(b["implication"]),
                                   activation=build_activation(b["activation"]), rules=rules))
    engine = fl.Engine(name=spec["name"], input_variables=ins, output_variables=outs, rule_blocks=blocks)
    for blk, b in zip(engine.rule_blocks, spec["blocks"]):
        for rule, r in zip(blk.rules, b["rules"]):
            if r.get("unloaded"):
                rule.unload()  # a rule the user took out with Rule.unload(): skipped until the next restart / reload
    return engine


# ---------------------------------------------------------------------------- input rows
def breakpoints(var: dict) -> list[float]:
    pts = []
    for t in var["terms"]:
        for k, v in t["args"].items():
            if k in ("height", "formula", "variables", "coefficients", "slope", "rising", "falling", "direction", "width",
                     "standard_deviation", "standard_deviation_a", "standard_deviation_b"):
                continue
            if isinstance(v, list):
                pts.extend(fdec(x) for x in v[0::2])
            else:
                pts.append(fdec(v))
    return [p for p in pts if math.isfinite(p)]


def draw_input(rng, var: dict, special: float = 0.2) -> float:
    lo, hi = fdec(var["min"]), fdec(var["max"])
    r = rng.random()
    if r < special * 0.35:
        return nan
    if not (math.isfinite(lo) and math.isfinite(hi)):
        bp = [b for b in breakpoints(var)]
        lo, hi = (min(bp) if bp else 0.0) if not math.isfinite(lo) else lo, (max(bp) if bp else 1.0) if not math.isfinite(hi) else hi
        if not lo < hi:
            lo, hi = lo - 1.0, hi + 1.0
    if r < special * 0.5:
        return C(rng, [inf, -inf, inf, -inf, 1e308, -1e308, 5e-324, 1e-300, -0.0])
    if r < special:
        return C(rng, [lo - (hi - lo) * 0.25, hi + (hi - lo) * 0.25, lo - 1e-9, hi + 1e-9])
    if r < special + 0.1:
        return C(rng, [lo, hi])
    if r < special + 0.3:
        bp = breakpoints(var)
        if bp:
            p = C(rng, bp)
            return C(rng, [p, math.nextafter(p, inf), math.nextafter(p, -inf)])
    return lo + (hi - lo) * rng.random()


def draw_row(rng, spec: dict, special: float = 0.2) -> list:
    return [fenc(draw_input(rng, v, special)) for v in spec["inputs"]]


def _used_names(spec: dict) -> tuple[set, dict]:
    """Variables referenced by rules / formulas, and per variable the set of referenced term names."""
    used_vars: set[str] = set()
    used_terms: dict[str, set] = {}

    def walk(a):
        if "op" in a:
            walk(a["l"])
            walk(a["r"])
        else:
            used_vars.add(a["var"])
            if a["term"] is not None:
                used_terms.setdefault(a["var"], set()).add(a["term"])
    for b in spec["blocks"]:
        for r in b["rules"]:
            walk(r["ant"])
            for c in r["con"]:
                walk(c)
    for v in spec["inputs"] + spec["outputs"]:
        for t in v["terms"]:
            if t["cls"] == "Function":
                used_vars |= set(_tokens(t["args"]["formula"]))
    return used_vars, used_terms


def simplify_spec_candidates(spec: dict):
    """Shrink candidates over the configuration, biggest cuts first."""
    for bi, b in enumerate(spec["blocks"]):
        if len(spec["blocks"]) > 1:
            s = copy.deepcopy(spec)
            del s["blocks"][bi]
            yield s
    for bi, b in enumerate(spec["blocks"]):
        n = len(b["rules"])
        size = n // 2
        while size >= 1 and n > 1:
            for start in range(0, n, size):
                keep = b["rules"][:start] + b["rules"][start + size:]
                if keep:
                    s = copy.deepcopy(spec)
                    s["blocks"][bi]["rules"] = copy.deepcopy(keep)
                    yield s
            size //= 2
    used_vars, used_terms = _used_names(spec)
    for vi, v in enumerate(spec["outputs"]):
        if v["name"] not in used_vars and len(spec["outputs"]) > 1:
            s = copy.deepcopy(spec)
            del s["outputs"][vi]
            yield s
    has_linear = any(t["cls"] == "Linear" for v in spec["outputs"] + spec["inputs"] for t in v["terms"])
    for vi, v in enumerate(spec["inputs"]):
        if v["name"] not in used_vars and len(spec["inputs"]) > 1:
            s = copy.deepcopy(spec)
            del s["inputs"][vi]
            if has_linear:
                for w in s["inputs"] + s["outputs"]:
                    for t in w["terms"]:
                        if t["cls"] == "Linear" and len(t["args"]["coefficients"]) > vi:
                            del t["args"]["coefficients"][vi]
            yield s
    for kind in ("inputs", "outputs"):
        for vi, v in enumerate(spec[kind]):
            for ti, t in enumerate(v["terms"]):
                if t["name"] not in used_terms.get(v["name"], set()) and len(v["terms"]) > 1:
                    s = copy.deepcopy(spec)
                    del s[kind][vi]["terms"][ti]
                    yield s
    for bi, b in enumerate(spec["blocks"]):
        for ri, r in enumerate(b["rules"]):
            if "op" in r["ant"]:
                for side in ("l", "r"):
                    s = copy.deepcopy(spec)
                    s["blocks"][bi]["rules"][ri]["ant"] = r["ant"][side]
                    yield s
            elif r["ant"]["hedges"] and r["ant"]["term"] is not None:
                s = copy.deepcopy(spec)
                s["blocks"][bi]["rules"][ri]["ant"]["hedges"] = []
                yield s
            if len(r["con"]) > 1:
                for ci in range(len(r["con"])):
                    s = copy.deepcopy(spec)
                    del s["blocks"][bi]["rules"][ri]["con"][ci]
                    yield s
            for ci, c in enumerate(r["con"]):
                if c["hedges"]:
                    s = copy.deepcopy(spec)
                    s["blocks"][bi]["rules"][ri]["con"][ci]["hedges"] = []
                    yield s
            if r.get("weight") is not None:
                s = copy.deepcopy(spec)
                s["blocks"][bi]["rules"][ri]["weight"] = None
                yield s
            if not r["enabled"]:
                s = copy.deepcopy(spec)
                s["blocks"][bi]["rules"][ri]["enabled"] = True
                yield s
        for key, simple in (("conjunction", "Minimum"), ("disjunction", "Maximum"), ("implication", "Minimum"), ("enabled", True)):
            if b[key] != simple:
                s = copy.deepcopy(spec)
                s["blocks"][bi][key] = simple
                yield s
        if b["activation"] and b["activation"]["cls"] != "General":
            s = copy.deepcopy(spec)
            s["blocks"][bi]["activation"] = {"cls": "General"}
            yield s
    for kind in ("inputs", "outputs"):
        for vi, v in enumerate(spec[kind]):
            for key, simple in (("lock_range", False), ("lock_previous", False), ("default", "nan"), ("enabled", True)):
                if key in v and v[key] != simple:
                    s = copy.deepcopy(spec)
                    s[kind][vi][key] = simple
                    yield s
            for ti, t in enumerate(v["terms"]):
                if t["cls"] not in ("Triangle", "Constant", "Linear", "Function") and (kind == "inputs" or v.get("family") in ("mamdani", "inverse")):
                    lo, hi = fdec(v["min"]), fdec(v["max"])
                    s = copy.deepcopy(spec)
                    s[kind][vi]["terms"][ti] = {"cls": "Triangle", "name": t["name"],
                                                "args": {"left": fenc(lo), "top": fenc((lo + hi) / 2), "right": fenc(hi), "height": 1.0}}
                    yield s


# ---------------------------------------------------------------------------- shipped examples as swarm source
def parse_rule_text(text: str) -> dict:
    """Rule text -> rule spec (own small recursive-descent parser: `and` binds tighter than `or`, both
    left-associative, parentheses override) so that shipped examples become ordinary specs."""
    text = text.split("#", 1)[0]
    toks = text.replace("(", " ( ").replace(")", " ) ").split()
    if not toks or toks[0] != "if" or "then" not in toks:
        raise ValueError(f"cannot parse rule: {text}")
    i_then = toks.index("then")
    ant, rest = toks[1:i_then], toks[i_then + 1:]
    weight = None
    if "with" in rest:
        w = rest.index("with")
        weight = fenc(float(rest[w + 1]))
        rest = rest[:w]

    def prop(ts: list[str]) -> dict:
        if len(ts) < 3 or ts[1] != "is":
            raise ValueError(f"cannot parse proposition: {ts}")
        hedges = []
        j = 2
        while j < len(ts) and ts[j] in HEDGES + EXT_HEDGES and (j < len(ts) - 1 or ts[j] == "any"):
            hedges.append(ts[j])
            j += 1
        term = ts[j] if j < len(ts) else None
        if j + 1 < len(ts):
            raise ValueError(f"trailing tokens in proposition: {ts}")
        return {"var": ts[0], "hedges": hedges, "term": term}

    con, cur = [], []
    for t in rest + ["and"]:
        if t == "and":
            con.append(prop(cur))
            cur = []
        else:
            cur.append(t)
    pos = [0]

    def peek():
        return ant[pos[0]] if pos[0] < len(ant) else None

    def take():
        pos[0] += 1
        return ant[pos[0] - 1]

    def p_atom() -> dict:
        if peek() == "(":
            take()
            e = p_or()
            if take() != ")":
                raise ValueError("expected )")
            if "op" in e:
                e["paren"] = True
            return e
        ts = []
        while peek() is not None and peek() not in ("and", "or", ")"):
            ts.append(take())
        return prop(ts)

    def p_and() -> dict:
        left = p_atom()
        while peek() == "and":
            take()
            left = {"op": "and", "l": left, "r": p_atom(), "paren": False}
        return left

    def p_or() -> dict:
        left = p_and()
        while peek() == "or":
            take()
            left = {"op": "or", "l": left, "r": p_and(), "paren": False}
        return left

    tree = p_or()
    if pos[0] != len(ant):
        raise ValueError(f"trailing tokens in antecedent: {ant[pos[0]:]}")
    return {"ant": tree, "con": con, "weight": weight, "enabled": True}


def _term_spec(t) -> dict:
    cls = type(t).__name__
    if cls == "Function":
        args: dict[str, Any] = {"formula": t.formula, "variables": {k: fenc(v) for k, v in t.variables.items()}}
        if any(isinstance(v, np.ndarray) for v in t.variables.values()):
            args["array_variables"] = True
    elif cls == "Linear":
        args = {"coefficients": [fenc(c) for c in t.coefficients]}
    elif cls == "Discrete":
        args = {"values": [fenc(v) for v in np.asarray(t.values, dtype=float).ravel()], "height": fenc(t.height)}
    elif cls == "Constant":
        args = {"value": fenc(t.value)}
    else:
        args = {k: fenc(v) for k, v in vars(t).items() if k != "name"}
    return {"cls": cls, "name": t.name, "args": args}


def spec_from_engine(e) -> dict:
    """JSON spec of a live engine (used to turn the shipped examples into swarm configurations)."""
    def norm(o):
        return type(o).__name__ if o is not None else None
    inputs = [{"name": v.name, "min": fenc(v.minimum), "max": fenc(v.maximum), "lock_range": bool(v.lock_range), "enabled": bool(v.enabled),
               "terms": [_term_spec(t) for t in v.terms]} for v in e.input_variables]
    outputs = []
    for v in e.output_variables:
        d = v.defuzzifier
        if d is None:
            dz, fam = None, "none"
        elif isinstance(d, fl.IntegralDefuzzifier):
            dz, fam = {"cls": type(d).__name__, "resolution": int(d.resolution)}, "mamdani"
        else:
            dz = {"cls": type(d).__name__, "type": d.type.name}
            classes = {type(t).__name__ for t in v.terms}
            fam = "takagi" if classes <= {"Constant", "Linear", "Function"} else ("tsukamoto" if classes <= set(MONOTONIC) else "inverse")
        outputs.append({"name": v.name, "min": fenc(v.minimum), "max": fenc(v.maximum), "lock_range": bool(v.lock_range),
                        "lock_previous": bool(v.lock_previous), "default": fenc(v.default_value), "enabled": bool(v.enabled),
                        "aggregation": norm(v.aggregation), "defuzzifier": dz, "family": fam, "terms": [_term_spec(t) for t in v.terms]})
    blocks = []
    for b in e.rule_blocks:
        a = b.activation
        act: dict[str, Any] | None = None
        if a is not None:
            act = {"cls": type(a).__name__}
            if hasattr(a, "rules"):
                act["rules"] = int(a.rules)
            if hasattr(a, "threshold"):
                act["threshold"] = fenc(a.threshold)
            if hasattr(a, "comparator"):
                act["comparator"] = a.comparator.value
        rules = []
        for r in b.rules:
            rs = parse_rule_text(f"if {r.antecedent.text} then {r.consequent.text}")
            rs["weight"] = None if float(r.weight) == 1.0 else fenc(r.weight)
            rs["enabled"] = bool(r.enabled)
            rules.append(rs)
        blocks.append({"name": b.name, "enabled": bool(b.enabled), "conjunction": norm(b.conjunction), "disjunction": norm(b.disjunction),
                       "implication": norm(b.implication), "activation": act, "rules": rules})
    spec = {"name": e.name, "inputs": inputs, "outputs": outputs, "blocks": blocks}
    spec["flags"] = {"fn_reads_output": fn_reads_output(spec), "example": e.name}
    return spec


_EXAMPLES: list[dict] | None = None


def load_example_specs() -> list[dict]:
    """Specs of the shipped example engines, produced in a *subprocess* (the caller stays pristine: importing
    and building 61 engines must not touch this process's library state). Call once in the parent before forking."""
    global _EXAMPLES
    if _EXAMPLES is None:
        import json
        import subprocess
        import sys as _sys
        code = ("import sys, json; sys.path.insert(0, %r); sys.path.insert(0, %r)\n"
                "from simkit import spec as S\nimport fuzzylite as fl\n"
                "out = []\n"
                "for e in fl.Op.glob_examples('engine'):\n"
                "    try:\n        out.append(S.spec_from_engine(e))\n    except Exception as ex:\n        print('skip', e.name, ex, file=sys.stderr)\n"
                "print(json.dumps(out))\n") % (env.VERIF, env.REPO)
        r = subprocess.run([_sys.executable, "-c", code], capture_output=True, text=True, timeout=120,
                           env=dict(__import__("os").environ, VERIF_REPO=env.REPO, PYTHONHASHSEED="0"))
        if r.returncode != 0:
            raise RuntimeError("cannot load example specs: " + r.stderr[-500:])
        _EXAMPLES = json.loads(r.stdout.strip().splitlines()[-1])
    return _EXAMPLES


def example_spec(rng, allow_fn_reads_output: bool = False, randomise_cascade: bool = True) -> dict | None:
    """A shipped example as swarm configuration (deep copy), optionally with randomised cascade settings."""
    if not _EXAMPLES:
        return None
    cands = [e for e in _EXAMPLES if allow_fn_reads_output or not e["flags"]["fn_reads_output"]]
    sp = copy.deepcopy(C(rng, cands))
    if randomise_cascade and rng.random() < 0.6:
        for o in sp["outputs"]:
            lo, hi = fdec(o["min"]), fdec(o["max"])
            o["lock_previous"] = rng.random() < 0.5
            o["lock_range"] = rng.random() < 0.4
            o["default"] = fenc(C(rng, [nan, nan, lo, hi, (lo + hi) / 2, hi + 1.0]))
    for o in sp["outputs"]:
        if o["defuzzifier"] and "resolution" in o["defuzzifier"] and o["defuzzifier"]["resolution"] > 200:
            o["defuzzifier"]["resolution"] = C(rng, [20, 50, 100, 200])
    return sp


def classes_of(spec: dict) -> set[str]:
    """Component classes a configuration contains (for the reach section of the evidence)."""
    out = {t["cls"] for v in spec["inputs"] + spec["outputs"] for t in v["terms"]}
    for o in spec["outputs"]:
        out.add((o["defuzzifier"] or {"cls": "NoDefuzzifier"})["cls"])
        out.add((o["aggregation"] or "NoAggregation").split(":")[0])
    for b in spec["blocks"]:
        out.add((b["activation"] or {"cls": "NoActivation"})["cls"])
        for key in ("conjunction", "disjunction", "implication"):
            out.add((b[key] or "NoOperator").split(":")[0])

        def walk(a):
            if "op" in a:
                walk(a["l"])
                walk(a["r"])
            else:
                out.update("hedge:" + h for h in a["hedges"])
        for r in b["rules"]:
            walk(r["ant"])
            for c in r["con"]:
                walk(c)
    return out
