"""Core types shared by all simulations: Sim (generator + runner), Outcome, Stats, SimCrash."""
from __future__ import annotations

import collections
from typing import Any, Iterator


class SimCrash(BaseException):
    """Simulated crash: a BaseException no library `except Exception` can swallow."""


class HarnessError(Exception):
    """A bug in the harness (never reported as a violation, never as success)."""


class HarnessTimeout(BaseException):
    pass


EXC_KINDS: dict[str, type[BaseException]] = {
    "ValueError": ValueError,
    "RuntimeError": RuntimeError,
    "FloatingPointError": FloatingPointError,
    "MemoryError": MemoryError,
    "KeyboardInterrupt": KeyboardInterrupt,
    "SystemExit": SystemExit,
    "StopIteration": StopIteration,
    "GeneratorExit": GeneratorExit,
    "SimCrash": SimCrash,
}
EXC_NAMES = list(EXC_KINDS)
SIM_EXC = tuple(EXC_KINDS.values())


def make_exc(kind: str, tag: str = "sim") -> BaseException:
    e = EXC_KINDS[kind](f"injected:{tag}")
    e._sim_injected = True  # type: ignore[attr-defined]
    return e


class Stats(collections.Counter):
    """Flat counter with dotted names: ops, faults.<kind>, probes.<name>, outcomes.<class>, arms.<arm>."""

    def hit(self, name: str, n: int = 1) -> None:
        self[name] += n

    def group(self, prefix: str) -> dict[str, int]:
        p = prefix + "."
        return {k[len(p):]: v for k, v in sorted(self.items()) if k.startswith(p)}


class Violation(dict):
    """{'oracle': name, 'op': index, 'details': {...}}"""

    def __init__(self, oracle: str, op: int, **details: Any) -> None:
        super().__init__(oracle=oracle, op=op, details=details)


class Outcome:
    __slots__ = ("violation", "digest", "stats", "signature", "nontrivial", "log")

    def __init__(self) -> None:
        self.violation: Violation | None = None
        self.digest: str = ""
        self.stats = Stats()
        self.signature: str = ""
        self.nontrivial: bool = False
        self.log: list[str] | None = None


class Sim:
    """One property's simulation: trace generator + trace runner + shrink candidates."""

    pid = "C00"
    level = "exploration"
    rule = ""
    assumptions: list[str] = []
    real_vs_stub: dict[str, str] = {}
    # runs per tier and wall budget (seconds) after which no further chunk is started
    tiers = {"quick": (1000, 60.0), "thorough": (100000, 900.0)}
    chunk = 50
    expected_probes: list[str] = []

    def prepare(self) -> None:
        """Called once in the pristine parent before any chunk is forked (e.g. load workload data)."""

    def cases(self, rng, run: int, tier: str) -> Iterator[dict]:
        """Yield the trace(s) of run index `run` (one base trace, optionally enumerated variants)."""
        raise NotImplementedError

    def execute(self, trace: dict, keep_log: bool = False) -> Outcome:
        raise NotImplementedError

    def shrink_candidates(self, trace: dict) -> Iterator[dict]:
        """Property-specific simplifications beyond generic op dropping (config, arguments)."""
        return iter(())

    def shrink_passes(self):
        """Ordered list of candidate generators (each: trace -> iterator of traces)."""
        return [self.shrink_candidates]
