"""Greedy delta-debugging shrinker: keep a candidate iff it fails with the same oracle name."""
from __future__ import annotations

import copy
import time
from typing import Iterator

from .core import HarnessTimeout, Sim


def drop_chunks(trace: dict, key: str = "ops") -> Iterator[dict]:
    """Candidates with a chunk of trace[key] removed: halves, quarters, ..., single ops."""
    ops = trace.get(key) or []
    n = len(ops)
    size = n // 2
    while size >= 1:
        for start in range(0, n, size):
            cand = dict(trace)
            cand[key] = ops[:start] + ops[start + size:]
            if len(cand[key]) < n:
                yield cand
        size //= 2


def truncate_after(trace: dict, op_index: int, key: str = "ops") -> Iterator[dict]:
    ops = trace.get(key) or []
    if 0 <= op_index < len(ops) - 1:
        cand = dict(trace)
        cand[key] = ops[: op_index + 1]
        yield cand


def shrink(sim: Sim, trace: dict, oracle: str, budget_s: float = 25.0, max_exec: int = 1500) -> tuple[dict, int]:
    cur = copy.deepcopy(trace)
    t0 = time.monotonic()
    execs = 0
    improved = True
    while improved:
        improved = False

        def all_candidates() -> Iterator[dict]:
            out0 = sim.execute(cur)
            if out0.violation:
                yield from truncate_after(cur, out0.violation["op"])
            yield from drop_chunks(cur)
            yield from sim.shrink_candidates(cur)

        for cand in all_candidates():
            if time.monotonic() - t0 > budget_s or execs >= max_exec:
                return cur, execs
            execs += 1
            try:
                out = sim.execute(copy.deepcopy(cand))
            except HarnessTimeout:
                raise
            except Exception:  # a candidate the runner cannot execute is simply not kept
                continue
            if out.violation and out.violation["oracle"] == oracle:
                cur = cand
                improved = True
                break
    return cur, execs
