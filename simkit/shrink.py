"""Greedy delta-debugging shrinker: keep a candidate iff it fails with the same oracle name."""
from __future__ import annotations

import copy
import time
from typing import Iterator

from .core import HarnessTimeout, Sim


def drop_chunks(trace: dict, key: str = "ops") -> Iterator[dict]:
    """Candidates with a chunk of trace[key] removed: halves, quarters, ..., single ops."""
    ops = trace.get(key) or []
    n = len(ops)
    size = n // 2
    while size >= 1:
        for start in range(0, n, size):
            cand = dict(trace)
            cand[key] = ops[:start] + ops[start + size:]
            if len(cand[key]) < n:
                yield cand
        size //= 2


def truncate_after(trace: dict, op_index: int, key: str = "ops") -> Iterator[dict]:
    ops = trace.get(key) or []
    if 0 <= op_index < len(ops) - 1:
        cand = dict(trace)
        cand[key] = ops[: op_index + 1]
        yield cand


def shrink(sim: Sim, trace: dict, oracle: str, budget_s: float = 25.0, max_exec: int = 4000) -> tuple[dict, int]:
    """Pass-based greedy reduction. A pass is re-run from its start after each accepted candidate;
    the whole pass list is repeated until a full sweep accepts nothing (or the budget is spent)."""
    cur = copy.deepcopy(trace)
    t0 = time.monotonic()
    execs = 0

    def fails(cand: dict) -> bool:
        nonlocal execs
        execs += 1
        try:
            out = sim.execute(copy.deepcopy(cand))
        except HarnessTimeout:
            raise
        except Exception:  # a candidate the runner cannot execute is simply not kept
            return False
        return bool(out.violation) and out.violation["oracle"] == oracle

    def spent() -> bool:
        return time.monotonic() - t0 > budget_s or execs >= max_exec

    def p_truncate(t: dict) -> Iterator[dict]:
        out0 = sim.execute(copy.deepcopy(t))
        if out0.violation:
            yield from truncate_after(t, out0.violation["op"])

    passes = [p_truncate, drop_chunks] + list(sim.shrink_passes())
    progress = True
    while progress and not spent():
        progress = False
        for p in passes:
            skip = 0
            again = True
            while again and not spent():
                again = False
                for idx, cand in enumerate(p(cur)):
                    if idx < skip:
                        continue  # rejected before the last accepted cut; the list only shifted by one
                    if spent():
                        break
                    if fails(cand):
                        cur = cand
                        skip = idx
                        again = progress = True
                        break
    return cur, execs
