"""C12 — output values follow the lock-previous / default / lock-range cascade.

Harness A (arms unit / partition / faultenum): one real OutputVariable driven by a scripted stub
defuzzifier, compared after every op with a 15-line reference model written from the property statement.
Harness B (arm engine): a generated engine with real defuzzifiers; raw defuzzified values come from a
twin engine with the cascade switched off; failures are injected through faulty components.
"""
from __future__ import annotations

import copy
import math
from typing import Iterator

import numpy as np

from simkit import env
from simkit.canon import cv, fdec, fenc, fx
from simkit.core import EXC_NAMES, SIM_EXC, Outcome, Sim, Violation, make_exc
from simkit.rng import Digest

fl = env.fl
nan = math.nan
inf = math.inf


class ScriptedDefuzzifier(fl.Defuzzifier):
    """Stub: returns the scripted values (freshly allocated float64 arrays, 0-d for one value, 1-d for a
    batch - exactly what the real defuzzifiers return after squeeze()) or raises the scripted exception."""

    def __init__(self) -> None:
        self.next_values: list[float] | None = None
        self.next_exc: BaseException | None = None
        self.next_as = "array"
        self.buffer: np.ndarray | None = None
        self.calls = 0
        self.seen_terms: list | None = None

    def configure(self, parameters: str) -> None:  # pragma: no cover
        pass

    def parameters(self) -> str:  # pragma: no cover
        return ""

    def defuzzify(self, term, minimum, maximum):
        self.calls += 1
        self.seen_terms = list(term.terms)
        if self.next_exc is not None:
            e, self.next_exc = self.next_exc, None
            if self.buffer is not None:  # a defuzzifier may scribble into its own buffer before it fails
                self.buffer[:] = 12345.678
            raise e
        vals = self.next_values
        assert vals is not None
        if len(vals) == 0:
            return np.array([], dtype=np.float64)
        if self.buffer is not None:
            # legal for a Defuzzifier: write the result into a preallocated buffer and return (a view of) it
            if len(vals) > len(self.buffer):
                self.buffer = np.full(len(vals), np.nan)
            self.buffer[: len(vals)] = vals
            return self.buffer[0:1].reshape(()) if len(vals) == 1 else self.buffer[: len(vals)]
        if len(vals) == 1:
            if self.next_as == "npscalar":  # what WeightedAverage / WeightedSum return for scalar inputs
                return np.float64(vals[0])
            if self.next_as == "pyfloat":  # what a user-written defuzzifier may return
                return float(vals[0])
            if self.next_as == "array1":
                return np.array([vals[0]], dtype=np.float64)
            if self.next_as == "pyint":  # `return 1` in a user-written defuzzifier
                return int(vals[0])
            if self.next_as == "pybool":
                return bool(vals[0])
        if len(vals) == 0:
            return np.array([], dtype=np.float64)
        if self.next_as in NARROW:  # a defuzzifier that answers in a narrower type (the values are exact in it)
            return np.array(vals[0] if len(vals) == 1 else vals, dtype=NARROW[self.next_as])
        if len(vals) == 1:
            return np.array(vals[0], dtype=np.float64)
        return np.array(vals, dtype=np.float64)


NARROW = {"f32": np.float32, "intarr": np.int64}


def narrow_values(kind: str, vals: list[float], rng) -> list[float]:
    """Scripted values that are exact in the type the stub will answer in."""
    if kind == "f32":
        return [float(np.float32(v)) for v in vals]
    if kind == "pybool":
        return [float(rng.random() < 0.5)]
    if kind in ("pyint", "intarr"):
        return [float(round(v)) if math.isfinite(v) else float(rng.randint(-3, 3)) for v in vals]
    return vals


def clipf(v: float, lo: float, hi: float) -> float:
    if v != v:
        return v
    return min(max(v, lo), hi)


class Model:
    """Reference model of the cascade, written from the statement of C12 (no fuzzylite code inside)."""

    def __init__(self, cfg: dict) -> None:
        self.lo, self.hi = fdec(cfg["min"]), fdec(cfg["max"])
        self.lock_range = cfg["lock_range"]
        self.lock_previous = cfg["lock_previous"]
        self.default = fdec(cfg["default"])
        self.enabled = cfg["enabled"]
        self.cur = [nan]
        self.prev = nan
        self.nterms = 0

    def call(self, vs: list[float], st=None) -> None:
        if not self.enabled:
            return
        p = self.cur[-1] if self.cur else nan  # (after an empty batch the variable holds no value at all)
        last = p
        out = []
        for i, d in enumerate(vs):
            v = d
            if v != v and self.lock_previous:
                v = last
                if st is not None and v == v:
                    st.hit("probes.fill_forward_inside_batch" if i > 0 else "probes.fill_forward_across_call_boundary")
            if v != v and self.default == self.default:
                v = self.default
                if st is not None:
                    st.hit("probes.default_applied_after_lock_previous_miss" if self.lock_previous else "probes.default_applied")
                    if self.lock_range and not (self.lo <= v <= self.hi):
                        st.hit("probes.default_clipped")
            if self.lock_range:
                w = clipf(v, self.lo, self.hi)
                if st is not None and w != v and v == v:
                    st.hit("probes.value_clipped")
                    if d != d:
                        st.hit("probes.carried_value_clipped_after_range_change")
                v = w
            if st is not None and math.isinf(v):
                st.hit("probes.infinite_value_kept")
            last = v
            out.append(v)
        self.cur = out
        self.prev = p

    def clear(self) -> None:
        self.cur = [nan]
        self.prev = nan
        self.nterms = 0

    def assign(self, vs: list[float]) -> None:
        self.cur = [clipf(v, self.lo, self.hi) for v in vs] if self.lock_range else list(vs)

    def set(self, key: str, v) -> None:
        if key == "minimum":
            self.lo = fdec(v)
        elif key == "maximum":
            self.hi = fdec(v)
        elif key == "default_value":
            self.default = fdec(v)
        else:
            setattr(self, key, bool(v))


VALUE_CLASSES = ["nan", "in", "below", "above", "+inf", "-inf", "min", "max"]


def draw_value(rng, lo: float, hi: float, weights=None) -> tuple[float, str]:
    flo = lo if math.isfinite(lo) else -10.0
    fhi = hi if math.isfinite(hi) else 10.0
    c = rng.choices(VALUE_CLASSES, weights or [30, 34, 9, 9, 3, 3, 6, 6])[0]
    if c == "nan":
        return nan, c
    if c == "in":
        return flo + (fhi - flo) * rng.random(), c
    if c == "below":
        return flo - rng.choice([1e-9, 0.5, 3.0, 1e6]), c
    if c == "above":
        return fhi + rng.choice([1e-9, 0.5, 3.0, 1e6]), c
    if c == "+inf":
        return inf, c
    if c == "-inf":
        return -inf, c
    if c == "min":
        return flo, c
    return fhi, c


def classify(v: float, lo: float, hi: float) -> str:
    if v != v:
        return "n"
    if math.isinf(v):
        return "P" if v > 0 else "M"
    if v < lo:
        return "b"
    if v > hi:
        return "a"
    return "i"


class C12(Sim):
    pid = "C12"
    level = "fault_enumeration"
    rule = ("A case is one history of ops {call(k rows of defuzzified values), fail(exception kind), clear, user "
            "assign, fill fuzzy output, change a setting} on a real OutputVariable (stub defuzzifier: arms "
            "unit/partition/faultenum) or a generated engine with real defuzzifiers and a cascade-free twin (arm "
            "engine), compared after every op with the reference model. Arm partition executes every one of the "
            "2^(L-1) cuts of a sampled row sequence; arm faultenum inserts a failure of every exception kind at "
            "every position of a sampled history. Non-trivial = at least one defuzzification with a value that the "
            "cascade had to change (NaN filled, default applied, or clipped) or an injected failure. Distinct = "
            "distinct (settings tuple, op-kind/call-size sequence, value-class sequence, fault positions).")
    assumptions = [
        "the stub defuzzifier returns freshly allocated float64 arrays (0-d or 1-element for one row, 1-d for a batch) as the real integral defuzzifiers do, or a NumPy scalar / Python float for one row as the weighted defuzzifiers and user-written ones do",
        "+-inf are values, not NaN (the property and the code say NaN; the docstring's 'not finite' is not followed)",
        "range bounds are not NaN and minimum <= maximum",
    ]
    real_vs_stub = {
        "OutputVariable.defuzzify / clear / value setter, Aggregated, Activated": "real",
        "defuzzifier in arms unit/partition/faultenum": "stub (ScriptedDefuzzifier)",
        "defuzzifiers, rule blocks, terms in arm engine": "real (twin engine supplies raw values)",
        "failures": "injected exception kinds, None defuzzifier, faulty component subclasses, FP traps",
    }
    tiers = {"quick": (12000, 60.0), "thorough": (1500000, 1500.0)}
    chunk = 100
    expected_probes = [
        "fill_forward_inside_batch", "fill_forward_across_call_boundary", "default_applied_after_lock_previous_miss",
        "default_clipped", "value_clipped", "carried_value_clipped_after_range_change", "infinite_value_kept",
        "failure_with_nonempty_fuzzy_output", "failure_as_first_call", "clear_between_nan_and_predecessor",
        "disabled_variable_untouched", "defuzzifier_reuses_its_result_buffer",
    ]

    def prepare(self) -> None:
        from simkit import spec as S
        S.load_example_specs()

    # ------------------------------------------------------------------ generation
    def gen_cfg(self, rng) -> dict:
        lo, hi = rng.choice([(0.0, 1.0), (-1.0, 1.0), (-5.0, 20.0), (0.0, 0.0), (-inf, inf), (-inf, 3.0), (2.0, inf)])
        d, _ = draw_value(rng, lo, hi, [40, 30, 12, 12, 1, 1, 2, 2])
        return {"min": fenc(lo), "max": fenc(hi), "lock_range": rng.random() < 0.5, "lock_previous": rng.random() < 0.6,
                "default": fenc(d), "enabled": rng.random() < 0.93, "stub_buffer": rng.random() < 0.3,
                "debugging": rng.random() < 0.04}

    def gen_ops(self, rng, cfg: dict, n: int, faults: bool, maxrows: int = 5) -> list[dict]:
        lo, hi = fdec(cfg["min"]), fdec(cfg["max"])
        ops = []
        for _ in range(n):
            r = rng.random()
            if r < 0.55:
                k = rng.choice([1, 1, 1, 2, 3, 4, maxrows])
                if rng.random() < 0.03:
                    k = 0  # an empty batch: the defuzzifier answers with an empty array (a filter that selected no row)
                kind = rng.choice(["array", "array", "npscalar", "pyfloat", "array1"])
                if rng.random() < 0.12:
                    kind = rng.choice(["f32", "f32", "intarr", "pyint", "pybool"])
                    if kind in ("pyint", "pybool"):
                        k = 1
                ops.append({"op": "call", "vals": [fenc(v) for v in narrow_values(kind, [draw_value(rng, lo, hi)[0] for _ in range(k)], rng)],
                            "as": kind})
            elif r < 0.65 and faults:
                ops.append({"op": "fail", "exc": rng.choice(EXC_NAMES)})
            elif r < 0.70:
                ops.append({"op": "clear"})
            elif r < 0.72:
                ops.append({"op": "copy", "how": rng.choice(["deepcopy", "deepcopy", "pickle"])})
            elif r < 0.79:
                k = rng.choice([1, 1, 1, 2, 3])
                ops.append({"op": "assign", "vals": [fenc(draw_value(rng, lo, hi)[0]) for _ in range(k)]})
            elif r < 0.86:
                ops.append({"op": "fill", "n": rng.randint(1, 3)})
            else:
                key = rng.choice(["lock_previous", "lock_range", "default_value", "enabled", "range"])
                if key == "range":
                    nlo, nhi = rng.choice([(0.0, 1.0), (-1.0, 1.0), (0.25, 0.5), (-inf, inf), (-100.0, 100.0)])
                    ops.append({"op": "set", "key": "minimum", "v": fenc(nlo)})
                    ops.append({"op": "set", "key": "maximum", "v": fenc(nhi)})
                    lo, hi = nlo, nhi
                elif key == "default_value":
                    ops.append({"op": "set", "key": key, "v": fenc(draw_value(rng, lo, hi, [40, 30, 12, 12, 1, 1, 2, 2])[0])})
                else:
                    ops.append({"op": "set", "key": key, "v": rng.random() < 0.6})
        return ops

    def cases(self, rng, run: int, tier: str) -> Iterator[dict]:
        arm = ["unit", "engine", "partition", "faultenum", "engine"][run % 5]
        if arm == "engine":
            from sims import c12_engine
            yield from c12_engine.cases(rng, run, tier)
            return
        cfg = self.gen_cfg(rng)
        if arm == "unit":
            for _ in range(4):
                cfg = self.gen_cfg(rng)
                yield {"arm": arm, "config": cfg, "ops": self.gen_ops(rng, cfg, rng.randint(2, 12 if tier == "quick" else 16), True)}
        elif arm == "partition":
            cfg["enabled"] = True
            lo, hi = fdec(cfg["min"]), fdec(cfg["max"])
            L = rng.randint(2, 6 if tier == "quick" else 8)
            rows = [fenc(draw_value(rng, lo, hi, [45, 25, 10, 10, 2, 2, 3, 3])[0]) for _ in range(L)]
            prefix = self.gen_ops(rng, cfg, rng.randint(0, 2), False)
            for mask in range(1 << (L - 1)):
                ops, cur = list(prefix), [rows[0]]
                for i in range(1, L):
                    if mask >> (i - 1) & 1:
                        ops.append({"op": "call", "vals": cur})
                        cur = []
                    cur.append(rows[i])
                ops.append({"op": "call", "vals": cur})
                yield {"arm": arm, "config": cfg, "ops": ops, "cut": mask}
        else:  # faultenum
            base = self.gen_ops(rng, cfg, rng.randint(2, 7), False)
            yield {"arm": arm, "config": cfg, "ops": base}
            for pos in range(len(base) + 1):
                for kind in EXC_NAMES:
                    ops = base[:pos] + [{"op": "fail", "exc": kind}] + base[pos:]
                    yield {"arm": arm, "config": cfg, "ops": ops, "fault_at": pos}
            # sampled double failures
            for _ in range(4):
                p1, p2 = sorted((rng.randint(0, len(base)), rng.randint(0, len(base))))
                ops = base[:p1] + [{"op": "fail", "exc": rng.choice(EXC_NAMES)}] + base[p1:p2] + \
                    [{"op": "fail", "exc": rng.choice(EXC_NAMES)}] + base[p2:]
                yield {"arm": arm, "config": cfg, "ops": ops}

    # ------------------------------------------------------------------ execution
    def execute(self, trace: dict, keep_log: bool = False) -> Outcome:
        if trace.get("arm") == "engine":
            from sims import c12_engine
            return c12_engine.execute(trace, keep_log)
        out = Outcome()
        st = out.stats
        st.hit("arms." + trace.get("arm", "unit"))
        cfg = trace["config"]
        dig = Digest()
        log = [] if keep_log else None
        m = Model(cfg)
        if cfg.get("debugging"):
            fl.settings.debugging = True  # the library's debug mode: reset_settings() switches it off before the next trace
            st.hit("probes.library_debug_mode")
        stub = ScriptedDefuzzifier()
        if cfg.get("stub_buffer"):
            stub.buffer = np.full(8, np.nan)
            st.hit("probes.defuzzifier_reuses_its_result_buffer")
        ov = fl.OutputVariable(
            "o", minimum=fdec(cfg["min"]), maximum=fdec(cfg["max"]), lock_range=cfg["lock_range"],
            lock_previous=cfg["lock_previous"], default_value=fdec(cfg["default"]), enabled=cfg["enabled"],
            aggregation=fl.Maximum(), defuzzifier=stub, terms=[fl.Triangle("t", 0.0, 0.5, 1.0)],
        )
        sig = [f"{int(cfg['lock_previous'])}{int(cfg['lock_range'])}{classify(m.default, m.lo, m.hi)}{int(cfg['enabled'])}"]
        first_call_seen = False
        last_was_nan_then_clear = False

        def emit(line: str) -> None:
            dig.add(line)
            if log is not None:
                log.append(line)

        def state_line() -> str:
            return f"value={','.join(cv(ov.value))} prev={fx(ov.previous_value)} terms={len(ov.fuzzy.terms)}"

        for i, op in enumerate(trace["ops"]):
            st.hit("ops")
            kind = op["op"]
            terms_list = ov.fuzzy.terms
            terms_ids = [id(t) for t in terms_list]
            before = (cv(ov.value), fx(ov.previous_value))
            viol = None
            if kind == "call":
                vs = [fdec(v) for v in op["vals"]]
                stub.next_values = vs
                stub.next_as = op.get("as", "array")
                if stub.next_as in ("intarr", "pyint", "pybool") and math.isinf(m.default):
                    # an integer-typed result cannot take an infinite default (NumPy refuses the cast even when nothing is
                    # NaN); the defuzzifier contract is Scalar = float | float array, integers are a courtesy: not judged
                    stub.next_as = "array"
                if len(vs) == 1 and stub.next_as != "array":
                    st.hit("probes.stub_returned_" + stub.next_as)
                calls0 = stub.calls
                try:
                    ov.defuzzify()
                except BaseException as e:  # noqa: BLE001
                    out.violation = Violation("defuzzify_raised", i, exception=type(e).__name__, message=str(e)[:160],
                                              rows=len(vs))
                    emit(f"{i} call RAISED {type(e).__name__}")
                    break
                if not m.enabled:
                    st.hit("probes.disabled_variable_untouched")
                    if stub.calls != calls0:  # not an alarm by itself: "left untouched" is judged on the variable's state below
                        st.hit("outcomes.defuzzifier_called_for_disabled_variable")
                if last_was_nan_then_clear and vs and vs[0] != vs[0] and m.lock_previous and m.enabled:
                    st.hit("probes.clear_between_nan_and_predecessor")
                narrow = stub.buffer is None and stub.next_as == "f32" and m.enabled
                if stub.buffer is None and stub.next_as in NARROW or stub.next_as in ("pyint", "pybool"):
                    st.hit("probes.stub_answered_in_" + stub.next_as)
                m.call(vs, st)
                if narrow:
                    # the defuzzifier answered in float32: NumPy keeps that type through fill, default and clip, so carried
                    # values, the default and the bounds arrive rounded to it. Accept the result within float32 resolution
                    # of the model's and carry on from what the variable holds; the previous value stays exact.
                    held = [float(x) for x in np.atleast_1d(ov.value)]
                    if len(held) == len(m.cur) and all(
                            (a != a and b != b) or a == b or (math.isfinite(a) and math.isfinite(b) and abs(a - b) <= 1.2e-7 * max(abs(a), abs(b)))
                            or (math.isinf(b) and abs(a) > 3.4e38)
                            for a, b in zip(m.cur, held)):
                        m.cur = held
                first_call_seen = first_call_seen or m.enabled
                sig.append(f"c{len(vs)}" + "".join(classify(v, m.lo, m.hi) for v in vs))
                last_was_nan_then_clear = False
            elif kind == "fail":
                e = make_exc(op["exc"], f"defuzz{i}")
                stub.next_exc = e
                raised = None
                try:
                    ov.defuzzify()
                except BaseException as ex:  # noqa: BLE001
                    raised = ex
                stub.next_exc = None
                if m.enabled:
                    st.hit("faults.defuzzifier_" + op["exc"])
                    if not first_call_seen:
                        st.hit("probes.failure_as_first_call")
                    if terms_ids:
                        st.hit("probes.failure_with_nonempty_fuzzy_output")
                    # the property is about the state after the failure, not about how the failure travels:
                    st.hit("outcomes.failure_propagated_unchanged" if raised is e else
                           ("outcomes.failure_wrapped_or_replaced" if raised is not None else "outcomes.failure_swallowed"))
                    if (cv(ov.value), fx(ov.previous_value)) != before:
                        viol = Violation("state_changed_by_failed_defuzzification", i, injected=op["exc"],
                                         before=list(before[0]) + [before[1]],
                                         after=list(cv(ov.value)) + [fx(ov.previous_value)])
                elif raised is not None:
                    st.hit("outcomes.defuzzifier_called_for_disabled_variable")
                sig.append("F")
            elif kind == "copy":
                # the run continues on a copy of the variable (what Engine.copy() does to every variable): a copy holds what the
                # original held - value, previous value, fuzzy output, settings - so the cascade goes on as if nothing happened
                import copy as _copy
                import pickle as _pickle
                try:
                    ov = _copy.deepcopy(ov) if op["how"] == "deepcopy" else _pickle.loads(_pickle.dumps(ov))
                    stub = ov.defuzzifier
                    st.hit("probes.continued_on_a_copy_of_the_variable")
                except Exception as e:  # noqa: BLE001 - not copyable this way: stay on the original
                    st.hit("outcomes.variable_not_copyable_" + type(e).__name__)
                sig.append("Y")
            elif kind == "clear":
                ov.clear()
                if m.cur and m.cur[-1] == m.cur[-1]:
                    last_was_nan_then_clear = True
                m.clear()
                sig.append("C")
            elif kind == "assign":
                vs = [fdec(v) for v in op["vals"]]
                ov.value = vs[0] if len(vs) == 1 else np.array(vs, dtype=float)
                m.assign(vs)
                sig.append("A")
            elif kind == "fill":
                for j in range(op["n"]):
                    ov.fuzzy.terms.append(fl.Activated(ov.terms[0], 0.25 * (j + 1), fl.Minimum()))
                m.nterms += op["n"]
                sig.append("T")
            elif kind == "set":
                if op["key"] in ("minimum", "maximum", "default_value"):
                    setattr(ov, op["key"], fdec(op["v"]))
                else:
                    setattr(ov, op["key"], bool(op["v"]))
                m.set(op["key"], op["v"])
                sig.append("S" + op["key"][0:6])
            else:
                raise AssertionError(kind)
            emit(f"{i} {kind} {state_line()}")
            # invariants after every op
            if viol is None:
                got = cv(ov.value)
                want = tuple(fx(c) for c in m.cur)
                if got != want:
                    viol = Violation("value_differs_from_cascade_model", i, opkind=kind, got=list(got), expected=list(want),
                                     settings=sig[0])
                elif fx(ov.previous_value) != fx(m.prev):
                    viol = Violation("previous_value_differs_from_model", i, opkind=kind, got=fx(ov.previous_value),
                                     expected=fx(m.prev))
                elif kind == "fail" and m.enabled and [id(t) for t in ov.fuzzy.terms] != terms_ids:
                    # C12 speaks about the fuzzy output only for the failing case
                    viol = Violation("fuzzy_output_changed_by_failed_defuzzification", i, opkind=kind, terms=len(ov.fuzzy.terms),
                                     expected=len(terms_ids))
                elif kind == "call" and [id(t) for t in ov.fuzzy.terms] != terms_ids:
                    st.hit("outcomes.fuzzy_output_changed_by_successful_defuzzification")  # counted, not judged
                    m.nterms = len(ov.fuzzy.terms)
            if viol is not None:
                out.violation = viol
                break
        fault_or_change = any(k.startswith("faults.") for k in st) or any(
            st.get("probes." + p, 0) for p in ("fill_forward_inside_batch", "fill_forward_across_call_boundary",
                                               "default_applied", "default_applied_after_lock_previous_miss", "value_clipped"))
        out.nontrivial = bool(fault_or_change)
        out.signature = "|".join(sig)
        out.digest = dig.hex()
        out.log = log
        return out

    # ------------------------------------------------------------------ shrinking
    def shrink_candidates(self, trace: dict) -> Iterator[dict]:
        if trace.get("arm") == "engine":
            from sims import c12_engine
            yield from c12_engine.shrink_candidates(trace)
            return
        ops = trace["ops"]
        for i, op in enumerate(ops):
            if op["op"] in ("call", "assign") and len(op["vals"]) > 1:
                for j in range(len(op["vals"])):
                    c = copy.deepcopy(trace)
                    c["ops"][i]["vals"] = op["vals"][:j] + op["vals"][j + 1:]
                    yield c
            if op["op"] in ("call", "assign"):
                for j, v in enumerate(op["vals"]):
                    for simple in (0.0, 0.5, "nan"):
                        if v != simple:
                            c = copy.deepcopy(trace)
                            c["ops"][i]["vals"][j] = simple
                            yield c
        cfg = trace["config"]
        for key, simple in (("lock_previous", False), ("lock_range", False), ("default", "nan"), ("min", 0.0), ("max", 1.0), ("stub_buffer", False), ("debugging", False)):
            if cfg[key] != simple:
                c = copy.deepcopy(trace)
                c["config"][key] = simple
                yield c


SIM = C12()
