"""C16 — malformed rule and FLL text is rejected cleanly (the two fault-and-state clauses).

1. failure atomicity of the rule life-cycle: a rule that is loaded and has been activated gets a
   corrupted text and is re-loaded; a failed assignment leaves it exactly as before, a failed load
   leaves it unloaded, other rules are untouched, and after restoring the text the engine behaves like a
   freshly built one;
2. stored documents: the engine is exported through the real file seam into a TornStore, the stored
   text is torn / lost / duplicated / reordered / substituted, and imported through the real file seam:
   clean rejection or acceptance (then exportable and every rule evaluable), never an internal error.
Single injected errors of a listed class are never accepted.
"""
from __future__ import annotations

import copy
import io
from typing import Iterator

import numpy as np

from simkit import engineops as EO
from simkit import env, spec as S
from simkit.canon import fx
from simkit.core import Outcome, Sim, Violation
from simkit.rng import Digest

fl = env.fl

REJECT = (SyntaxError, ValueError, KeyError)
LISTED = ["missing_keyword", "missing_variable", "missing_term", "missing_operand", "unknown_name", "unbalanced_paren",
          "bad_weight", "trailing_token"]
GENERIC = ["delete", "duplicate", "swap", "substitute", "truncate", "insert", "any_prop"]


LEX = ["tabs", "double", "lead_trail", "cr", "upper_kw", "title_kw", "glue_parens", "nbsp", "wide_space", "comment_tail", "comment_mid",
       "num_format", "unicode_name", "long_name", "zero_width", "newline_mid"]
NUM_FORMATS = ["1e0", "+1", ".5", "1.", "1_0", "0x1", "\uff11", "NaN", "nan", "-inf", "Infinity", "1e999", "1,0", "\u0663", "1e", "--1", "1.0.0", "0b1", "1j", "\u00bd", "1 .0"]


def lexify(rng, words: list[str], kind: str | None) -> str:
    """The lexical level of a rule text: how the same words may be written (or mangled) on their way through editors,
    spreadsheets and platforms. Whatever the library makes of it - accept or reject - it must not fail internally."""
    text = " ".join(words)
    if not kind or not words:
        return text
    kw = {"if", "then", "is", "and", "or", "with"}
    if kind == "tabs":
        return "\t".join(words)
    if kind == "double":
        return "  ".join(words)
    if kind == "lead_trail":
        return "  \t" + text + " \t "
    if kind == "cr":
        return text + rng.choice(["\r", "\r\n", "\n"])
    if kind == "upper_kw":
        return " ".join(w.upper() if w in kw else w for w in words)
    if kind == "title_kw":
        return " ".join(w.title() if w in kw and rng.random() < 0.5 else w for w in words)
    if kind == "glue_parens":
        return text.replace("( ", "(").replace(" )", ")")
    i = rng.randrange(len(words))
    if kind in ("nbsp", "wide_space", "zero_width", "newline_mid"):
        sep = {"nbsp": "\u00a0", "wide_space": "\u3000", "zero_width": "\u200b", "newline_mid": "\n"}[kind]
        return " ".join(words[:i + 1]) + sep + " ".join(words[i + 1:])
    if kind == "comment_tail":
        return text + rng.choice([" # note", "# note", " #", " ## with 0.5"])
    if kind == "comment_mid":
        return " ".join(words[:i] + ["#"] + words[i:])
    if kind == "num_format":
        fmt = rng.choice(NUM_FORMATS)
        if "with" in words:
            j = words.index("with")
            return " ".join(words[:j + 1] + [fmt] + words[j + 2:])
        return text + " with " + fmt
    names = [j for j, w in enumerate(words) if w not in kw and w not in ("(", ")") and w.isidentifier()]
    if not names:
        return text
    j = rng.choice(names)
    if kind == "unicode_name":
        w = words[j]
        k = rng.randrange(len(w))
        return " ".join(words[:j] + [w[:k] + rng.choice(["\u0430", "\u00e9", "\uff41", "\u03b1", "\u0131", "\U0001d44e"]) + w[k + 1:]] + words[j + 1:])
    if kind == "long_name":
        return " ".join(words[:j] + [words[j] * 2000] + words[j + 1:])
    raise AssertionError(kind)


def _gen_kind(mut: dict, trace: dict) -> str:
    """In the library's debug mode the parser logs its whole queue and stack for every token (quadratic in the length of the
    rule): very long chains are left to the other traces."""
    g = mut["generic"]
    return "long_chain:30" if g.startswith("long_chain") and trace.get("debugging") else g


def with_lex(rng, mut: dict) -> dict:
    if rng.random() < 0.25:
        mut["lex"] = rng.choice(LEX)
        if rng.random() < 0.5:
            mut["generic"] = "none"  # the words of the valid rule, written differently
    return mut


def pick_generic(rng) -> str:
    # long_chain (one proposition chained 30 .. 2500 times) is rare: beyond ~1000 connectives it runs into known finding F1,
    # which ends the trace
    r = rng.random()
    return "long_chain" if r < 0.02 else ("hollow" if r < 0.05 else rng.choice(GENERIC))
WORDS = ["if", "then", "is", "and", "or", "with", "not", "very", "any", "somewhat", "(", ")", "0.5", "1", "-1", "nan", "inf", "zzz",
         "i0", "i1", "o0", "o1", "a", "b", "p", "q", "sin", "+", "*", ",", "pi", "~", "!", "^", "max", ":", "rule:", "x", "e", "%"]


# ---------------------------------------------------------------------------- tagged rule tokens
def tag_prop(p: dict, out: bool) -> list[tuple[str, str]]:
    t = [(p["var"], "ovar" if out else "var"), ("is", "is")] + [(h, "hedge") for h in p["hedges"]]
    if p["term"] is not None:
        t.append((p["term"], "oterm" if out else "term"))
    return t


def tag_ast(a: dict, parent: str | None = None, right: bool = False) -> list[tuple[str, str]]:
    if "op" not in a:
        return tag_prop(a, False)
    t = tag_ast(a["l"], a["op"], False) + [(a["op"], "op")] + tag_ast(a["r"], a["op"], True)
    need = a.get("paren") or (parent == "and" and a["op"] == "or") or (right and parent is not None)
    return [("(", "lparen")] + t + [(")", "rparen")] if need else t


def tag_rule(r: dict) -> list[tuple[str, str]]:
    t = [("if", "if")] + tag_ast(r["ant"]) + [("then", "then")]
    for i, c in enumerate(r["con"]):
        if i:
            t.append(("and", "cand"))
        t += tag_prop(c, True)
    if r.get("weight") is not None:
        t += [("with", "with"), (repr(float(r["weight"])), "weight")]
    return t


def operand_spans(a: dict, toks: list[tuple[str, str]]) -> list[tuple[int, int]]:
    """Token index spans [i, j) of whole operands of some operator in the antecedent."""
    spans: list[tuple[int, int]] = []

    def walk(node, start, parent=None, right=False) -> int:
        if "op" not in node:
            return start + len(tag_prop(node, False))
        need = node.get("paren") or (parent == "and" and node["op"] == "or") or (right and parent is not None)
        s = start + (1 if need else 0)
        e_l = walk(node["l"], s, node["op"], False)
        spans.append((s, e_l))
        e_r = walk(node["r"], e_l + 1, node["op"], True)
        spans.append((e_l + 1, e_r))
        return e_r + (1 if need else 0)
    walk(a, 1)
    return spans


def inject_listed(rng, r: dict, cls: str, other_names: list[str] | None = None) -> list[str] | None:
    """other_names: names that exist in the engine but are not variables or terms (its rule blocks, the engine itself):
    as unknown to a rule as any made-up word."""
    toks = tag_rule(r)
    words = [t for t, _ in toks]

    def idx(*roles):
        return [i for i, (_, role) in enumerate(toks) if role in roles]
    if cls == "missing_keyword":
        c = idx("if", "is", "then", "with", "cand", "op")
        i = rng.choice(c)
        if rng.random() < 0.35:
            # the keyword is there only in part (a typo that drops characters): still a missing keyword
            w = words[i]
            frag = rng.choice([w[:-1], w[1:]] if len(w) > 2 else [w[:1], w[1:]])
            return words[:i] + [frag] + words[i + 1:]
        return words[:i] + words[i + 1:]
    if cls == "missing_variable":
        i = rng.choice(idx("var", "ovar"))
        return words[:i] + words[i + 1:]
    if cls == "missing_term":
        c = idx("term", "oterm")
        if not c:
            return None
        i = rng.choice(c)
        return words[:i] + words[i + 1:]
    if cls == "missing_operand":
        sp = operand_spans(r["ant"], toks)
        if not sp:
            return None
        s, e = rng.choice(sp)
        return words[:s] + words[e:]
    if cls == "unknown_name":
        i = rng.choice(idx("var", "ovar", "term", "oterm", "hedge"))
        return words[:i] + [rng.choice(["zzz", "q9", "Very", "i9", "o9"] + (other_names or []) * 2)] + words[i + 1:]
    if cls == "unbalanced_paren":
        par = idx("lparen", "rparen")
        then = words.index("then")
        if par and rng.random() < 0.4:
            i = rng.choice(par)
            return words[:i] + words[i + 1:]
        i = rng.randint(1, then)
        return words[:i] + [rng.choice(["(", ")"])] + words[i:]
    if cls == "bad_weight":
        bad = rng.choice(["abc", "1.0.0", "0,5", "--1", "one", "0.5x"])
        if r.get("weight") is not None:
            return words[:-1] + [bad]
        return words + ["with", bad]
    if cls == "trailing_token":
        return words + [rng.choice(["zzz", "and", "0.5", "then", "if", "is", "(", ")", "with", "o0", "p"])]
    raise AssertionError(cls)


def mutate_generic(rng, words: list[str], kind: str, vocabulary: list[str] | None = None, variables: list[str] | None = None) -> list[str]:
    WORDS = (vocabulary or []) + globals()["WORDS"]  # noqa: N806 - the engine's own identifiers first
    if kind == "any_prop":
        # grammatical, but degenerate: replace one antecedent proposition by `<some variable of the engine> is any`
        # (whatever the library decides - accept or reject - an accepted rule must be evaluable)
        if "then" not in words or not variables:
            kind = "substitute"
        else:
            end = words.index("then")
            starts = [j for j in range(1, end) if j + 1 < end and words[j + 1] == "is"]
            if not starts:
                kind = "substitute"
            else:
                a = rng.choice(starts)
                b = a + 2
                while b < end and words[b] not in ("and", "or", ")", "then"):
                    b += 1
                return words[:a] + [rng.choice(variables), "is"] + rng.choice([[], ["not"], ["very"]]) + ["any"] + words[b:]
    if kind == "none":
        return list(words)
    if kind == "hollow":
        # an antecedent (or consequent) made of punctuation only: non-empty text that yields no proposition at all
        if "then" not in words:
            return list(words)
        end = words.index("then")
        filler = rng.choice([["(", ")"], ["(", "(", ")", ")"], ["(", ",", ")"], [","], ["(", ")", "(", ")"]])
        if rng.random() < 0.7:
            return words[:1] + filler + words[end:]
        return words[:end + 1] + filler
    fixed_n = None
    if kind.startswith("long_chain:"):
        kind, fixed_n = "long_chain", int(kind.split(":")[1])
    if kind == "long_chain":
        # grammatical, but very long: the antecedent chained with itself N times (a machine-generated rule)
        if len(words) > 2000 or not words or words[0] != "if" or "then" not in words or words.index("then") < 4:
            return list(words)
        end = words.index("then")
        unit = []  # the first proposition of the antecedent: VAR is [hedges] TERM
        for w in words[1:end]:
            if w in ("and", "or"):
                break
            if w not in ("(", ")"):
                unit.append(w)
        if len(unit) < 3:
            return list(words)
        n_rep = fixed_n or rng.choice([30, 30, 1100, 1100])  # (1100 is beyond the recursion limit already; longer only costs time)
        conn = rng.choice(["and", "or", None])
        chain: list[str] = []
        for j in range(n_rep):
            if j:
                chain.append(conn or rng.choice(["and", "or"]))
            chain += unit
        return ["if"] + chain + words[end:]
    n = len(words)
    if n == 0:
        return [rng.choice(WORDS)]
    i = rng.randrange(n)
    if kind == "delete":
        return words[:i] + words[i + 1:]
    if kind == "duplicate":
        return words[:i + 1] + words[i:]
    if kind == "swap":
        j = min(n - 1, i + 1)
        w = list(words)
        w[i], w[j] = w[j], w[i]
        return w
    if kind == "substitute":
        return words[:i] + [rng.choice(WORDS)] + words[i + 1:]
    if kind == "truncate":
        return words[:i]
    return words[:i] + [rng.choice(WORDS)] + words[i:]


# ---------------------------------------------------------------------------- the stored document
class TornStore:
    """Duck-typed Path: whole-buffer writes land in `data`; faults act on the stored text."""

    def __init__(self) -> None:
        self.data: str | None = None
        self.raw: bytes | None = None
        self.writes = 0

    def open(self, mode: str = "r", encoding: str | None = None):  # noqa: ARG002
        store = self
        if "w" in mode:
            class _W(io.StringIO):
                def close(self) -> None:
                    if not self.closed:
                        store.data = self.getvalue()
                        store.raw = None
                        store.writes += 1
                    super().close()
            return _W()
        if self.data is None:
            raise FileNotFoundError("empty store")
        if self.raw is not None:  # a flipped stored *byte*: decoding happens in read(), as with a real file
            return io.TextIOWrapper(io.BytesIO(self.raw), encoding=encoding or "utf-8")
        return io.StringIO(self.data)


def corrupt_text(text: str, c: dict) -> str:
    kind = c["kind"]
    if kind == "torn":
        return text[: int(len(text) * c["frac"])]
    lines = text.split("\n")
    if kind == "head_lost":
        # the beginning of the stored document is gone (overwritten / rotated away): what is left starts at some line
        return "\n".join(lines[c["pos"] % max(1, len(lines)):])
    if kind in ("block_move", "block_drop"):
        # a whole top-level section (Engine / InputVariable / OutputVariable / RuleBlock up to the next header) is moved to the
        # front or the end, or lost: what a merge tool or a hand edit does to such a file
        heads = [i for i, ln in enumerate(lines) if ln[:1] not in (" ", "\t", "") and ":" in ln]
        if len(heads) < 2:
            return text
        h = c["pos"] % len(heads)
        a, b = heads[h], (heads[h + 1] if h + 1 < len(heads) else len(lines))
        block, rest = lines[a:b], lines[:a] + lines[b:]
        if kind == "block_drop":
            return "\n".join(rest)
        return "\n".join(block + rest if c.get("wpos", 0) % 2 == 0 else rest + block)
    if kind in ("line_delete", "line_duplicate", "line_swap"):
        if not lines:
            return text
        i = c["pos"] % len(lines)
        if kind == "line_delete":
            lines = lines[:i] + lines[i + 1:]
        elif kind == "line_duplicate":
            lines = lines[:i + 1] + lines[i:]
        else:
            j = min(len(lines) - 1, i + 1)
            lines[i], lines[j] = lines[j], lines[i]
        return "\n".join(lines)
    if kind == "num_mangle":
        # one numeric field of the document written in another (or a mangled) numeric format
        cands = []
        for li_, ln in enumerate(lines):
            for wi_, w in enumerate(ln.split(" ")):
                try:
                    float(w)
                    cands.append((li_, wi_))
                except ValueError:
                    pass
        if not cands:
            return text
        li_, wi_ = cands[c["pos"] % len(cands)]
        ws = lines[li_].split(" ")
        ws[wi_] = NUM_FORMATS[c.get("wpos", 0) % len(NUM_FORMATS)] if c.get("cpos", 0) % 3 else ["inf", "-inf", "Infinity", "1e999", "nan", "NaN", "-0", "1e-999"][c.get("wpos", 0) % 8]
        lines[li_] = " ".join(ws)
        return "\n".join(lines)
    # token level: tokens are whitespace separated words inside one line
    li = c["pos"] % max(1, len(lines))
    words = lines[li].split(" ")
    wi = c.get("wpos", 0) % max(1, len(words))
    if kind == "tok_delete":
        words = words[:wi] + words[wi + 1:]
    elif kind == "tok_duplicate":
        words = words[:wi + 1] + words[wi:]
    elif kind == "tok_substitute":
        words = words[:wi] + [c["word"]] + words[wi + 1:]
    elif kind == "tok_swap":
        j = min(len(words) - 1, wi + 1)
        words[wi], words[j] = words[j], words[wi]
    elif kind == "tok_insert":
        words = words[:wi + 1] + [c["word"]] + words[wi + 1:]
    elif kind == "char_flip":
        w = words[wi]
        if w:
            k = c.get("cpos", 0) % len(w)
            words[wi] = w[:k] + c["word"][:1] + w[k + 1:]
    else:
        raise AssertionError(kind)
    lines[li] = " ".join(words)
    return "\n".join(lines)


def reformat_text(text: str, kind: str) -> str:
    """Harmless-looking transformations a stored document meets on its way between tools and platforms."""
    if kind == "crlf":
        return text.replace("\n", "\r\n")
    if kind == "bom":
        return "\ufeff" + text
    if kind == "tabs":
        return text.replace("  ", "\t")
    if kind == "trailing_space":
        return "\n".join(ln + "  " for ln in text.split("\n"))
    if kind == "blank_lines":
        return text.replace("\n", "\n\n")
    if kind == "comments":
        return "# exported\n" + "\n".join(ln + "  # note" if i % 3 == 0 and ln.strip() else ln for i, ln in enumerate(text.split("\n")))
    if kind == "no_final_newline":
        return text.rstrip("\n")
    raise AssertionError(kind)


def _props(rspec: dict) -> list[dict]:
    out = []

    def walk(a):
        if "op" in a:
            walk(a["l"])
            walk(a["r"])
        else:
            out.append(a)
    walk(rspec["ant"])
    out.extend(rspec["con"])
    return out


def rule_snap(r) -> tuple:
    return (r.antecedent.text, r.consequent.text, fx(r.weight), r.enabled, r.is_loaded(), id(r.antecedent.expression),
            tuple(id(c) for c in r.consequent.conclusions))


def eval_error_tolerated(rule, blk, ex: BaseException | None = None) -> bool:
    """May evaluating this *loaded* rule legitimately raise ValueError / RuntimeError? Yes if a connective's operator
    is missing in the block, if the error comes out of a term's own membership function (a term that was accepted but
    is not usable as configured: empty Discrete, Linear arity, Function with an unknown variable), or if a term it
    mentions computes from engine state. Otherwise an accepted rule must evaluate (the rule machinery itself must
    not choke on what it accepted)."""
    if isinstance(ex, RecursionError):
        return False  # (a RuntimeError by inheritance, but C16 names recursion among the internal errors)
    if blk.conjunction is None or blk.disjunction is None:
        return True
    if ex is not None and _site(ex).startswith("term.py:"):
        return True
    stack = [rule.antecedent.expression]  # (iterative: the tree of a long rule is as deep as the rule has connectives)
    while stack:
        node = stack.pop()
        if node is None:
            continue
        if hasattr(node, "left"):
            stack += [node.left, node.right]
        elif isinstance(node.term, (fl.Function, fl.Linear)):
            return True
    return False


def eval_violation(oracle: str, i: int, ex: BaseException, **details) -> Violation:
    """An accepted (loaded) rule that cannot be evaluated. Recursion gets an oracle name of its own, with the site, so that
    the known finding about the recursive evaluation of very long antecedents matches exactly that and nothing else."""
    if isinstance(ex, RecursionError):
        details.pop("text", None)  # (thousands of words)
        details.pop("message", None)
        details.pop("site", None)
        details.pop("exception", None)
        return Violation("rule_evaluation_hits_the_recursion_limit", i, exception="RecursionError", site=_site(ex), found_by=oracle, **details)
    return Violation(oracle, i, **details)


def classify(e: BaseException) -> str:
    if isinstance(e, REJECT) and not isinstance(e, IndexError):
        return "rejected"
    return "internal"


class C16(Sim):
    pid = "C16"
    level = "exploration"
    rule = ("A case is one generated engine plus a history of ops {corrupt a loaded and activated rule's text (single injected "
            "error of a listed class, or generic token deletion/duplication/substitution/swap/truncation/insertion) and load "
            "it; restore it; reload a block / restart while k rules are corrupted; process; export to the store through "
            "FllExporter.to_file; tear / lose / duplicate / reorder / substitute lines, tokens or characters of the stored "
            "document; inject a listed error into a stored rule line; import through FllImporter.from_file}. Non-trivial = at "
            "least one rejected load on a previously loaded rule or one import of a damaged document. Distinct = distinct "
            "(sequence of op kinds with mutation class and outcome class).")
    assumptions = [
        "rejection classes: SyntaxError, ValueError, KeyError (RuntimeError only from RuleBlock.load_rules / restart, its documented way of collecting per-rule errors); everything else is internal",
        "the 'all texts' reading of C16 is sampled, not decided; decided are state after failed loads and behaviour on damaged stored documents",
        "re-export being a fixed point is C14's clause and is not checked here",
    ]
    real_vs_stub = {"Rule.parse/load/unload, RuleBlock.reload_rules, Engine.restart/process, FllExporter.to_file, FllImporter.from_file": "real",
                    "file": "in-process TornStore passed through the library's own path.open() seam (whole-buffer write/read, as the library does)",
                    "corruption": "simulator (torn prefix, line/token/char faults, grammar-aware listed errors)"}
    tiers = {"quick": (8000, 75.0), "thorough": (1500000, 1500.0)}
    chunk = 25
    expected_probes = [
        "failed_load_on_previously_activated_rule", "antecedent_good_consequent_bad", "reload_with_one_bad_rule_among_good",
        "torn_inside_token", "torn_inside_rule", "torn_inside_term_line", "torn_after_engine_line", "corrupted_document_accepted",
        "import_failure_in_second_rule_block", "parse_phase_rejection_atomic", "restored_engine_equals_fresh_twin",
        "listed_error_in_stored_rule", "shipped_example_engine", "library_debug_mode", "rule_reloaded_after_variable_renamed_back",
    ]

    def prepare(self) -> None:
        S.load_example_specs()

    # ---------------------------------------------------------------- generation
    def cases(self, rng, run: int, tier: str) -> Iterator[dict]:
        sp = S.gen_spec(rng, activations=S.GENERAL if rng.random() < 0.6 else S.ACTIVATIONS, fn_reads_output=False, cascade=False,
                        disabled=0.04, mixed_types=0.0, user_terms=["InputGain"])  # (rows are always processed one at a time here)
        if rng.random() < 0.12:
            sp = S.example_spec(rng, allow_fn_reads_output=True, randomise_cascade=False) or sp
        if rng.random() < 0.08:
            # a variable without terms (legal; shipped examples have them): it can only be mentioned with `any`
            sp["inputs"].append({"name": "aux", "min": 0.0, "max": 1.0, "lock_range": False, "enabled": True, "terms": []})
        n_blocks = len(sp["blocks"])
        ops: list[dict] = [{"op": "process", "row": S.draw_row(rng, sp, 0.1)}]
        for _ in range(rng.randint(3, 12 if tier == "quick" else 20)):
            r = rng.random()
            bi = rng.randrange(n_blocks)
            ri = rng.randrange(len(sp["blocks"][bi]["rules"]))
            if r < 0.38:
                if rng.random() < 0.55:
                    mut = {"listed": rng.choice(LISTED), "seed": rng.randrange(1 << 30)}
                else:
                    mut = with_lex(rng, {"generic": pick_generic(rng), "seed": rng.randrange(1 << 30), "times": rng.choice([1, 1, 2, 3])})
                ops.append({"op": "corrupt_rule", "b": bi, "r": ri, "mut": mut})
                rr = rng.random()
                if rr < 0.3:
                    ops.append({"op": "process", "row": S.draw_row(rng, sp, 0.1)})
                if rr < 0.75:
                    ops.append({"op": "restore_rule", "b": bi, "r": ri})
                    ops.append({"op": "process", "row": S.draw_row(rng, sp, 0.1)})
            elif r < 0.42:
                if rng.random() < 0.6:
                    mut = {"listed": rng.choice(LISTED), "seed": rng.randrange(1 << 30)}
                else:
                    mut = with_lex(rng, {"generic": pick_generic(rng), "seed": rng.randrange(1 << 30), "times": rng.choice([1, 1, 2])})
                ops.append({"op": "fresh_rule", "b": bi, "r": ri, "mut": mut, "via": rng.choice(["create", "importer", "importer_block", "create", "importer", "importer_block", "create_empty", "importer_block_empty", "create_unregistered_hedge"])})
            elif r < 0.44:
                ops.append({"op": "rename_check", "b": bi, "r": ri, "pick": rng.randrange(8)})
            elif r < 0.48:
                ops.append({"op": "reload", "b": bi, "plain": rng.random() < 0.4})
            elif r < 0.52:
                ops.append({"op": "restart"})
            elif r < 0.62:
                ops.append({"op": "process", "row": S.draw_row(rng, sp, 0.1)})
            else:
                ops.append({"op": "export_store"})
                k = rng.random()
                if k < 0.3:
                    ops.append({"op": "corrupt_store", "c": {"kind": "torn", "frac": rng.random()}})
                elif k < 0.38:
                    ops.append({"op": "reformat_store", "kind": rng.choice(["crlf", "bom", "tabs", "trailing_space", "blank_lines", "comments", "no_final_newline"])})
                    if rng.random() < 0.5:
                        ops.append({"op": "corrupt_store", "c": {"kind": "torn", "frac": rng.random()}})
                elif k < 0.50:
                    ops.append({"op": "store_rule_error", "line": rng.randrange(64), "listed": rng.choice(LISTED), "seed": rng.randrange(1 << 30)})
                else:
                    for _ in range(rng.choice([1, 1, 1, 2, 3])):
                        kind = rng.choice(["line_delete", "line_duplicate", "line_swap", "tok_delete", "tok_duplicate", "tok_substitute",
                                           "tok_substitute", "tok_swap", "tok_insert", "tok_insert", "char_flip", "byte_flip", "head_lost", "block_move", "block_drop", "num_mangle", "num_mangle"])
                        ops.append({"op": "corrupt_store", "c": {"kind": kind, "pos": rng.randrange(256), "wpos": rng.randrange(16),
                                                                 "cpos": rng.randrange(8), "byte": rng.choice([0, 9, 10, 13, 32, 35, 58, 127, 128, 192, 237, 255, rng.randrange(256)]), "word": rng.choice(WORDS + ["true", "false", "none", "Centroid", "General", "Triangle", "term:", "range:", "Engine:", "RuleBlock:", "OutputVariable:", "200", "Minimum", "Automatic", "First", "Highest", "Threshold", "Proportional", ">=", "2", "0.000"] + NUM_FORMATS + ["\u00a0", "\ufeff", "\u3000", "IF", "Then", "TRUE", "True", "rule :", "term:x", "range:0", "\t"])}})
                ops.append({"op": "import_store"})
        if run == 0:
            # a fixed probe per seed: one rule whose first proposition is chained 1100 times
            ops.insert(1, {"op": "corrupt_rule", "b": 0, "r": 0, "mut": {"generic": "long_chain:1100", "seed": 3, "times": 1}})
        tr = {"arm": "clean", "config": sp, "ops": ops}
        if rng.random() < 0.03:
            tr["debugging"] = True  # the library's debug mode (settings.debugging): extra code paths in the parsers
        yield tr

    # ---------------------------------------------------------------- execution
    def execute(self, trace: dict, keep_log: bool = False) -> Outcome:
        import random as _random
        out = Outcome()
        st = out.stats
        st.hit("arms." + trace.get("arm", "clean"))
        sp = trace["config"]
        dig = Digest()
        log = [] if keep_log else None

        def emit(line: str) -> None:
            dig.add(line)
            if log is not None:
                log.append(line)

        if trace.get("debugging"):
            fl.settings.debugging = True  # env.reset_settings() puts the level back to ERROR before the next trace
            st.hit("probes.library_debug_mode")
        try:
            E = S.build(sp)
        except Exception as ex:
            # building the engine loads every generated rule text: a refusal is an outcome, an internal error is C16's business
            st.hit("outcomes.build_failed")
            emit(f"BUILD-FAILED {type(ex).__name__}")
            if classify(ex) == "internal" and _site(ex) == "?":
                raise  # not out of the library: a harness problem, reported as such
            if classify(ex) == "internal":
                out.violation = Violation("internal_error_on_rule_text", -1, exception=type(ex).__name__, message=str(ex)[:200],
                                          site=_site(ex), entry="Engine(...) loading the generated rules")
            out.digest, out.log = dig.hex(), log
            return out
        if sp.get("flags", {}).get("example"):
            st.hit("probes.shipped_example_engine")
        vocab = sorted({v["name"] for v in sp["inputs"] + sp["outputs"]} | {t["name"] for v in sp["inputs"] + sp["outputs"] for t in v["terms"]})
        names_in_use = set(vocab)
        other_names = [n for n in [b["name"] for b in sp["blocks"]] + [sp["name"]] if n not in names_in_use and n.isidentifier()]
        vocab = vocab + other_names
        var_names = [v["name"] for v in sp["inputs"] + sp["outputs"]]
        store = TornStore()
        kept_importer = fl.FllImporter()  # one importer object for the whole trace (besides a fresh one per import)
        for _cls in S.classes_of(sp):
            st.hit("classes." + _cls)
        # harness view of every rule: original text, text currently in force, whether it should be loaded
        cur_text = {(bi, ri): S.rule_text(r) for bi, b in enumerate(sp["blocks"]) for ri, r in enumerate(b["rules"])}
        orig_text = dict(cur_text)
        corrupted: dict[tuple[int, int], bool] = {}  # rules whose current text failed to load
        sig: list[str] = []
        nontrivial = False
        activated = False
        pending_listed = None

        def all_rule_snaps(skip=None):
            return {(bi, ri): rule_snap(r) for bi, b in enumerate(E.rule_blocks) for ri, r in enumerate(b.rules) if (bi, ri) != skip}

        def effective_spec() -> dict:
            s2 = copy.deepcopy(sp)
            for (bi, ri), t in cur_text.items():
                s2["blocks"][bi]["rules"][ri]["text"] = t
            return s2

        for i, op in enumerate(trace["ops"]):
            st.hit("ops")
            k = op["op"]
            v = None
            if k in ("corrupt_rule", "restore_rule"):
                bi = op["b"] % len(E.rule_blocks)
                blk = E.rule_blocks[bi]
                ri = op["r"] % len(blk.rules)
                rule = blk.rules[ri]
                rspec = sp["blocks"][bi]["rules"][ri]
                listed = None
                if k == "restore_rule":
                    text = orig_text[(bi, ri)]
                    mclass = "restore"
                else:
                    mut = op["mut"]
                    mr = _random.Random(mut["seed"])
                    if "listed" in mut:
                        words = inject_listed(mr, rspec, mut["listed"], other_names)
                        if words is None:
                            st.hit("outcomes.listed_error_not_applicable")
                            sig.append("n/a")
                            continue
                        listed = mut["listed"]
                        mclass = "L:" + listed
                        st.hit("faults.rule_" + listed)
                    else:
                        words = orig_text[(bi, ri)].split()
                        for _ in range(mut.get("times", 1)):
                            words = mutate_generic(mr, words, _gen_kind(mut, trace), vocab, var_names)
                        mclass = "G:" + mut["generic"].split(":")[0]
                        st.hit("faults.rule_generic_" + mut["generic"].split(":")[0])
                    text = lexify(mr, words, mut.get("lex") if listed is None else None)
                    if listed is None and mut.get("lex"):
                        st.hit("faults.rule_lexical_" + mut["lex"])
                was_loaded = rule.is_loaded()
                before = rule_snap(rule)
                others = all_rule_snaps(skip=(bi, ri))
                phase, outcome, exc = "parse", "accepted", None
                try:
                    rule.text = text
                    phase = "load"
                    rule.load(E)
                except BaseException as ex:  # noqa: BLE001
                    if not isinstance(ex, Exception):
                        raise
                    exc = ex
                    outcome = classify(ex)
                emit(f"{i} {k} b{bi}r{ri} {mclass} text={text!r} -> {outcome}@{phase} {type(exc).__name__ if exc else ''}")
                sig.append(f"{mclass}>{outcome[0]}{phase[0]}")
                st.hit(f"outcomes.rule_{outcome}_at_{phase}")
                if outcome == "internal":
                    v = Violation("internal_error_on_rule_text", i, exception=type(exc).__name__, message=str(exc)[:160], phase=phase,
                                  text=text, mutation=mclass)
                elif outcome == "rejected":
                    if was_loaded and activated:
                        st.hit("probes.failed_load_on_previously_activated_rule")
                        nontrivial = True
                    if phase == "parse":
                        if rule_snap(rule) != before:
                            v = Violation("failed_text_assignment_changed_the_rule", i, text=text, before=str(before[:5]), after=str(rule_snap(rule)[:5]))
                        else:
                            st.hit("probes.parse_phase_rejection_atomic")
                    else:
                        if rule.is_loaded():
                            v = Violation("rule_reports_loaded_after_failed_load", i, text=text, exception=type(exc).__name__,
                                          message=str(exc)[:120], was_loaded=was_loaded)
                        elif rule.antecedent.is_loaded() and not rule.consequent.is_loaded():
                            st.hit("probes.antecedent_good_consequent_bad")
                        cur_text[(bi, ri)] = text
                        corrupted[(bi, ri)] = True
                    if v is None and k == "restore_rule":
                        st.hit("outcomes.valid_rule_text_rejected")  # not C16's business (C06/C14); the rule simply stays unloaded
                else:  # accepted
                    cur_text[(bi, ri)] = text
                    corrupted.pop((bi, ri), None)
                    if listed is not None:
                        v = Violation("rule_with_listed_error_accepted", i, error_class=listed, text=text)
                    elif not rule.is_loaded():
                        v = Violation("accepted_rule_is_not_loaded", i, text=text)
                    else:
                        try:
                            str(rule)
                            fl.FllExporter().to_string(rule)
                        except Exception as ex:
                            v = Violation("accepted_rule_cannot_be_exported", i, text=text, exception=type(ex).__name__)
                        if v is None:
                            try:
                                rule.activate_with(blk.conjunction, blk.disjunction)
                                rule.deactivate()
                            except (ValueError, RuntimeError) as ex:
                                if eval_error_tolerated(rule, blk, ex):
                                    st.hit("outcomes.accepted_rule_needs_missing_operator")
                                else:
                                    v = eval_violation("accepted_rule_cannot_be_evaluated", i, ex, text=text, exception=type(ex).__name__, message=str(ex)[:120])
                            except Exception as ex:
                                v = eval_violation("accepted_rule_cannot_be_evaluated", i, ex, text=text, exception=type(ex).__name__, message=str(ex)[:120])
                if v is None and all_rule_snaps(skip=(bi, ri)) != others:
                    v = Violation("loading_one_rule_changed_another", i, text=text)
            elif k == "rename_check":
                # the engine itself changes under a loaded rule: a variable the rule mentions is renamed (public attribute).
                # The unchanged rule text now carries an *unknown name* and must not load; after renaming back it must.
                bi = op["b"] % len(E.rule_blocks)
                blk = E.rule_blocks[bi]
                ri = op["r"] % len(blk.rules)
                rule = blk.rules[ri]
                if (bi, ri) in corrupted or cur_text[(bi, ri)] != orig_text[(bi, ri)] or not rule.is_loaded():
                    continue
                rspec = sp["blocks"][bi]["rules"][ri]
                names = sorted(S.ast_vars(rspec["ant"]) | {c["var"] for c in rspec["con"]})
                old_name = names[op["pick"] % len(names)]
                var = next(v_ for v_ in E.variables if v_.name == old_name)
                if sum(1 for v_ in E.variables if v_.name == old_name) != 1:
                    continue
                others = all_rule_snaps(skip=(bi, ri))
                target = var
                if op["pick"] % 3 == 1:
                    # rename a *term* the rule mentions instead (the term name in the text becomes unknown)
                    used = [p_["term"] for p_ in _props(rspec) if p_["var"] == old_name and p_["term"] is not None]
                    # (shipped examples contain variables with several terms of the same name: renaming one of those
                    # leaves the name known, so only uniquely named terms qualify)
                    cands = [t_ for t_ in var.terms if t_.name in used and sum(1 for u_ in var.terms if u_.name == t_.name) == 1]
                    if cands:
                        target = cands[(op["pick"] // 3) % len(cands)]
                        old_name = target.name
                target.name = old_name + "_renamed"
                var = target
                st.hit("faults.engine_term_renamed" if target is not next((v_ for v_ in E.variables if v_ is target), None) else "faults.engine_variable_renamed")
                exc = None
                try:
                    rule.load(E)
                except BaseException as ex:  # noqa: BLE001
                    if not isinstance(ex, Exception):
                        raise
                    exc = ex
                finally:
                    loaded_with_unknown_name = rule.is_loaded()
                    var.name = old_name
                emit(f"{i} rename_check b{bi}r{ri} {old_name} -> {type(exc).__name__ if exc else 'accepted'}")
                sig.append("V" + ("r" if exc else "a"))
                if exc is None:
                    v = Violation("rule_with_listed_error_accepted", i, error_class="unknown_name", text=cur_text[(bi, ri)],
                                  how=f"variable {old_name} renamed on the engine before the load")
                elif classify(exc) == "internal":
                    v = Violation("internal_error_on_rule_text", i, exception=type(exc).__name__, message=str(exc)[:160], text=cur_text[(bi, ri)])
                elif loaded_with_unknown_name:
                    v = Violation("rule_reports_loaded_after_failed_load", i, text=cur_text[(bi, ri)], via="rename")
                else:
                    try:
                        rule.load(E)  # the name is back: the rule is valid again
                        st.hit("probes.rule_reloaded_after_variable_renamed_back")
                    except Exception:
                        st.hit("outcomes.valid_rule_text_rejected")
                        corrupted[(bi, ri)] = True
                    if all_rule_snaps(skip=(bi, ri)) != others:
                        v = Violation("loading_one_rule_changed_another", i, text=cur_text[(bi, ri)])
            elif k == "fresh_rule":
                # other public entry points for rule text: Rule.create, FllImporter.rule, FllImporter.rule_block
                bi = op["b"] % len(E.rule_blocks)
                ri = op["r"] % len(E.rule_blocks[bi].rules)
                rspec = sp["blocks"][bi]["rules"][ri]
                mut = op["mut"]
                mr = _random.Random(mut["seed"])
                listed = None
                if "listed" in mut:
                    words = inject_listed(mr, rspec, mut["listed"], other_names)
                    if words is None:
                        continue
                    listed = mut["listed"]
                    st.hit("faults.fresh_" + listed)
                else:
                    words = orig_text[(bi, ri)].split()
                    for _ in range(mut.get("times", 1)):
                        words = mutate_generic(mr, words, _gen_kind(mut, trace), vocab, var_names)
                    st.hit("faults.fresh_generic_" + mut["generic"].split(":")[0])
                text = lexify(mr, words, mut.get("lex") if listed is None else None)
                if listed is None and mut.get("lex"):
                    st.hit("faults.fresh_lexical_" + mut["lex"])
                others = all_rule_snaps()
                exc = None
                made = []
                try:
                    if op["via"] == "create_unregistered_hedge":
                        # a hedge that was registered (and used) before and is no longer: as unknown as any other word
                        hw = text.split()
                        if "is" in hw and "#" not in text:
                            j = hw.index("is")
                            text = " ".join(hw[:j + 1] + ["userhalf"] + hw[j + 1:])
                        reg = fl.settings.factory_manager.hedge.constructors
                        saved_ctor = reg.pop("userhalf", None)
                        try:
                            made = [fl.Rule.create(text, E)]
                        finally:
                            if saved_ctor is not None:
                                reg["userhalf"] = saved_ctor
                    elif op["via"] == "create_empty":
                        # against an engine without any variable every rule names an unknown variable
                        made = [fl.Rule.create(text, fl.Engine("empty"))]
                    elif op["via"] == "importer_block_empty":
                        made = list(fl.FllImporter().rule_block("RuleBlock: x\n  enabled: true\n  rule: " + text, fl.Engine("empty")).rules)
                    elif op["via"] == "create":
                        made = [fl.Rule.create(text, E)]
                    elif op["via"] == "importer":
                        made = [fl.FllImporter().rule("rule: " + text, E)]
                    else:
                        made = list(fl.FllImporter().rule_block("RuleBlock: x\n  enabled: true\n  rule: " + text, E).rules)
                except BaseException as ex:  # noqa: BLE001
                    if not isinstance(ex, Exception):
                        raise
                    exc = ex
                outcome = "accepted" if exc is None else classify(exc)
                st.hit(f"outcomes.fresh_rule_{outcome}")
                emit(f"{i} fresh_rule via={op['via']} text={text!r} -> {outcome} {type(exc).__name__ if exc else ''}")
                sig.append(f"N{op['via'][0]}{outcome[0]}")
                if outcome == "internal":
                    v = Violation("internal_error_on_rule_text", i, exception=type(exc).__name__, message=str(exc)[:160], via=op["via"], text=text)
                elif outcome == "accepted":
                    if op["via"] == "create_unregistered_hedge":
                        if "#" not in text and " is userhalf " in f" {text} ":
                            v = Violation("rule_with_listed_error_accepted", i, error_class="unknown_name (a hedge that is not registered any more)", text=text[:300], via=op["via"])
                    elif op["via"].endswith("_empty"):
                        if "#" not in text:
                            v = Violation("rule_with_listed_error_accepted", i, error_class="unknown_name (engine without variables)", text=text, via=op["via"])
                    elif listed is not None and "#" not in text:
                        v = Violation("rule_with_listed_error_accepted", i, error_class=listed, text=text, via=op["via"])
                    else:
                        for r2 in made:
                            if r2 is None:
                                continue
                            if not r2.is_loaded():
                                v = Violation("accepted_rule_is_not_loaded", i, text=text, via=op["via"])
                                break
                            try:
                                r2.activate_with(E.rule_blocks[bi].conjunction, E.rule_blocks[bi].disjunction)
                            except (ValueError, RuntimeError) as ex:
                                if not eval_error_tolerated(r2, E.rule_blocks[bi], ex):
                                    v = eval_violation("accepted_rule_cannot_be_evaluated", i, ex, text=text, exception=type(ex).__name__, via=op["via"])
                                    break
                            except Exception as ex:
                                v = eval_violation("accepted_rule_cannot_be_evaluated", i, ex, text=text, exception=type(ex).__name__, via=op["via"])
                                break
                if v is None and all_rule_snaps() != others:
                    v = Violation("loading_one_rule_changed_another", i, text=text, via=op["via"])
            elif k in ("reload", "restart"):
                bad = sorted(corrupted)
                if k == "reload":
                    bi = op["b"] % len(E.rule_blocks)
                    blk = E.rule_blocks[bi]
                    bad_here = [x for x in bad if x[0] == bi]
                    if len(bad_here) == 1 and len(blk.rules) > 1:
                        st.hit("probes.reload_with_one_bad_rule_among_good")
                    target = (lambda: blk.load_rules(E)) if op.get("plain") else (lambda: blk.reload_rules(E))  # noqa: E731
                    scope = [(bi, ri) for ri in range(len(blk.rules))]
                else:
                    bad_here = bad
                    target = E.restart
                    scope = list(cur_text)
                exc = None
                try:
                    target()
                except BaseException as ex:  # noqa: BLE001
                    if not isinstance(ex, Exception):
                        raise
                    exc = ex
                emit(f"{i} {k} bad={len(bad_here)} -> {type(exc).__name__ if exc else 'ok'}")
                sig.append(f"{k[:3]}{len(bad_here)}{'x' if exc else 'o'}")
                if exc is not None and not isinstance(exc, RuntimeError):
                    v = Violation("internal_error_on_reload", i, exception=type(exc).__name__, message=str(exc)[:160])
                elif exc is None and bad_here:
                    v = Violation("reload_accepted_unloadable_rules", i, rules=str(bad_here))
                elif exc is not None and not bad_here:
                    st.hit("outcomes.reload_failed_without_bad_rules")  # counted, not judged: C16 is about malformed text
                else:
                    # which rules were reached? reload_rules handles one block completely; restart stops at the first failing block
                    reached = scope
                    if k == "restart" and exc is not None:
                        first_bad_block = min(x[0] for x in bad_here)
                        reached = [x for x in scope if x[0] <= first_bad_block]
                    for (b2, r2) in reached:
                        rr = E.rule_blocks[b2].rules[r2]
                        if (b2, r2) in corrupted and rr.is_loaded():
                            v = Violation("rule_reports_loaded_after_failed_load", i, via=k, text=cur_text[(b2, r2)])
                            break
                        if (b2, r2) not in corrupted and not rr.is_loaded():
                            v = Violation("good_rule_not_loaded_after_reload", i, via=k, text=cur_text[(b2, r2)])
                            break
            elif k == "process":
                EO.set_inputs(E, [op["row"]])
                exc = EO.process_with(E, None)[0]
                activated = True
                emit(f"{i} process -> {exc} " + ";".join(",".join(x[1]) for x in EO.outputs_of(E)))
                sig.append("P")
                st.hit("outcomes.process_" + str(exc))
                # C16 says a loaded rule can be *evaluated*: judge rule evaluation, in the state process() left behind
                for b2 in E.rule_blocks:
                    for r2 in b2.rules:
                        if not r2.is_loaded():
                            continue
                        try:
                            r2.activate_with(b2.conjunction, b2.disjunction)
                        except (ValueError, RuntimeError) as ex:
                            if eval_error_tolerated(r2, b2, ex):
                                st.hit("outcomes.loaded_rule_needs_missing_operator")
                            else:
                                v = eval_violation("loaded_rule_cannot_be_evaluated", i, ex, text=r2.text, exception=type(ex).__name__,
                                              message=str(ex)[:120], site=_site(ex))
                                break
                        except Exception as ex:
                            v = eval_violation("loaded_rule_cannot_be_evaluated", i, ex, text=r2.text, exception=type(ex).__name__,
                                          message=str(ex)[:120], site=_site(ex))
                            break
                    if v:
                        break
                if v is None and exc is None and not corrupted:
                    # counted only (history-freedom is C13's clause): does the engine equal a fresh one with the texts now in force?
                    try:
                        T = S.build(effective_spec())
                        for fv, iv in zip(T.input_variables, E.input_variables):
                            fv._value = np.copy(iv.value)
                        t_exc = EO.process_with(T, None)[0]
                        same = t_exc is None and EO.outputs_of(T) == EO.outputs_of(E)
                    except Exception:
                        same = False
                    st.hit("probes.restored_engine_equals_fresh_twin" if same else "outcomes.engine_differs_from_fresh_twin_after_rule_failures")
            elif k == "export_store":
                try:
                    fl.FllExporter().to_file(store, E)
                except Exception as ex:
                    v = Violation("export_raised", i, exception=type(ex).__name__, message=str(ex)[:160])
                pending_listed = None
                emit(f"{i} export_store len={len(store.data or '')}")
                sig.append("X")
            elif k == "corrupt_store":
                if store.data is None:
                    continue
                c = op["c"]
                old = store.data
                pending_listed = None
                if c["kind"] == "byte_flip":
                    raw = bytearray((store.raw if store.raw is not None else old.encode("utf-8")))
                    if raw:
                        raw[c["pos"] * 7919 % len(raw)] = c.get("byte", 255) % 256
                    store.raw = bytes(raw)
                    st.hit("faults.doc_byte_flip")
                    emit(f"{i} corrupt_store byte_flip")
                    sig.append("cbyte")
                    continue
                store.raw = None
                store.data = corrupt_text(old, c)
                st.hit("faults.doc_" + c["kind"])
                if c["kind"] == "torn":
                    cut = len(store.data)
                    if 0 < cut < len(old) and old[cut - 1] not in " \n" and old[cut] not in " \n":
                        st.hit("probes.torn_inside_token")
                    line = old[:cut].rsplit("\n", 1)[-1]
                    if line.lstrip().startswith("rule:"):
                        st.hit("probes.torn_inside_rule")
                    if line.lstrip().startswith("term:"):
                        st.hit("probes.torn_inside_term_line")
                    if old[:cut].count("\n") <= 1:
                        st.hit("probes.torn_after_engine_line")
                emit(f"{i} corrupt_store {c['kind']} len={len(store.data)}")
                sig.append("c" + c["kind"][:5])
            elif k == "reformat_store":
                if store.data is None:
                    continue
                store.raw = None
                store.data = reformat_text(store.data, op["kind"])
                pending_listed = None
                st.hit("faults.doc_reformat_" + op["kind"])
                emit(f"{i} reformat_store {op['kind']} len={len(store.data)}")
                sig.append("f" + op["kind"][:4])
            elif k == "store_rule_error":
                if store.data is None:
                    continue
                lines = store.data.split("\n")
                rl = [j for j, ln in enumerate(lines) if ln.strip().startswith("rule:")]
                flat = [(bi, ri) for bi, b in enumerate(sp["blocks"]) for ri in range(len(b["rules"]))]
                cands = [(j, flat[n]) for n, j in enumerate(rl) if n < len(flat) and flat[n] not in corrupted and cur_text[flat[n]] == orig_text[flat[n]]]
                if not cands:
                    continue
                j, (bi, ri) = cands[op["line"] % len(cands)]
                words = inject_listed(_random.Random(op["seed"]), sp["blocks"][bi]["rules"][ri], op["listed"], other_names)
                if words is None:
                    continue
                indent = lines[j][: len(lines[j]) - len(lines[j].lstrip())]
                lines[j] = indent + "rule: " + " ".join(words)
                store.data = "\n".join(lines)
                st.hit("faults.doc_rule_" + op["listed"])
                st.hit("probes.listed_error_in_stored_rule")
                emit(f"{i} store_rule_error {op['listed']} line={j}")
                sig.append("L" + op["listed"][:9])
                pending_listed = op["listed"]
                continue
            elif k == "import_store":
                if store.data is None:
                    continue
                pending, pending_listed = pending_listed, None
                nontrivial = True
                exc = None
                eng = None
                try:
                    eng = fl.FllImporter().from_file(store)
                except BaseException as ex:  # noqa: BLE001
                    if not isinstance(ex, Exception):
                        raise
                    exc = ex
                outcome = "accepted" if exc is None else classify(exc)
                st.hit("outcomes.import_" + outcome)
                # the same document through an importer object that has been used before (a long-lived service object):
                # what it accepts must not depend on the documents it has seen
                exc_k, eng_k = None, None
                try:
                    eng_k = kept_importer.from_file(store)
                except BaseException as ex:  # noqa: BLE001
                    if not isinstance(ex, Exception):
                        raise
                    exc_k = ex
                outcome_k = "accepted" if exc_k is None else classify(exc_k)
                emit(f"{i} import_store -> {outcome} {type(exc).__name__ if exc else ''} / reused importer: {outcome_k}")
                sig.append("I" + outcome[0])
                if outcome != "internal" and outcome_k == "internal":
                    outcome, exc = outcome_k, exc_k
                elif outcome == "rejected" and outcome_k == "accepted":
                    st.hit("probes.reused_importer_disagrees")
                    v = Violation("document_rejected_by_a_fresh_importer_accepted_by_a_reused_one", i, exception=type(exc).__name__,
                                  message=str(exc)[:160], document=store.data[-400:])
                elif outcome == "accepted" and outcome_k == "accepted":
                    try:
                        if fl.FllExporter().to_string(eng_k) != fl.FllExporter().to_string(eng):
                            st.hit("outcomes.reused_importer_builds_another_engine")
                    except Exception:
                        pass
                elif outcome != outcome_k:
                    st.hit("outcomes.reused_importer_rejects_what_a_fresh_one_accepts")
                if v is not None:
                    pass
                elif outcome == "internal":
                    v = Violation("internal_error_on_document", i, exception=type(exc).__name__, message=str(exc)[:160],
                                  site=_site(exc), document=store.data[-400:])
                elif outcome == "rejected":
                    if isinstance(exc, SyntaxError) and store.data.count("RuleBlock:") >= 2:
                        st.hit("probes.import_failure_in_second_rule_block")
                else:
                    if pending is not None:
                        v = Violation("document_rule_with_listed_error_accepted", i, error_class=pending, document=store.data[-500:])
                    else:
                        st.hit("probes.corrupted_document_accepted")
                        try:
                            fl.FllExporter().to_string(eng)
                        except Exception as ex:
                            v = Violation("imported_engine_cannot_be_exported", i, exception=type(ex).__name__, message=str(ex)[:160],
                                          document=store.data[-400:])
                        if v is None:
                            for b2 in eng.rule_blocks:
                                for r2 in b2.rules:
                                    if not r2.is_loaded():
                                        v = Violation("imported_rule_not_loaded", i, text=r2.text)
                                        break
                                    try:
                                        r2.activate_with(b2.conjunction, b2.disjunction)
                                    except (ValueError, RuntimeError) as ex:
                                        if eval_error_tolerated(r2, b2, ex):
                                            st.hit("outcomes.imported_rule_needs_missing_operator")
                                        else:
                                            v = eval_violation("imported_rule_cannot_be_evaluated", i, ex, text=r2.text, exception=type(ex).__name__,
                                                          message=str(ex)[:160], site=_site(ex))
                                            break
                                    except Exception as ex:
                                        v = eval_violation("imported_rule_cannot_be_evaluated", i, ex, text=r2.text, exception=type(ex).__name__,
                                                      message=str(ex)[:160], site=_site(ex))
                                        break
                                if v:
                                    break
            else:
                raise AssertionError(k)
            if v is not None:
                out.violation = v
                break
        out.nontrivial = nontrivial
        out.signature = "|".join(sig)
        out.digest = dig.hex()
        out.log = log
        return out

    # ---------------------------------------------------------------- shrinking
    def shrink_passes(self):
        return [self._shrink_spec]

    def _shrink_spec(self, trace: dict) -> Iterator[dict]:
        for s in S.simplify_spec_candidates(trace["config"]):
            c = dict(trace)
            c["config"] = s
            yield c


def _site(e: BaseException) -> str:
    tb = e.__traceback__
    last = None
    while tb is not None:
        if tb.tb_frame.f_code.co_filename.startswith(env.FL_DIR):
            last = tb
        tb = tb.tb_next
    if last is None:
        return "?"
    c = last.tb_frame.f_code
    return f"{c.co_filename.rsplit('/', 1)[-1]}:{c.co_name}"


SIM = C16()
