"""C02 — batch (vectorised) processing equals row-by-row float processing.

Replica agreement: two real engines built from one spec receive the same row stream; replica A in
scheduler-chosen segments of 1..16 rows (per-variable arrays or the engine-level matrix setter),
replica B one row at a time as plain Python floats.  After every segment the per-row outputs and fuzzy
outputs must agree, and neither replica may raise where the other does not.
"""
from __future__ import annotations

import copy
from typing import Iterator

import numpy as np

from simkit import engineops as EO
from simkit import env, spec as S
from simkit.canon import bcast, close_enough, cs, cv, fdec, fenc
from simkit.core import Outcome, Sim, Violation
from simkit.rng import Digest

fl = env.fl
ULP_REL = 1e-12


def degrees_close_not_equal(a_deg: list, b_deg: list, r: int, k: int) -> bool:
    """True iff the activation degrees behind two differing fuzzy-value strings agree within the declared
    last-bit allowance and at least one differs (then the 3-decimal print may legitimately differ: a 1-ulp
    difference of a degree of magnitude 1e19, or one at a rounding boundary of the third decimal)."""
    if len(a_deg) != len(b_deg):
        return False
    differs = False
    for (n, av), (m, bv) in zip(a_deg, b_deg):
        if n != m or len(av) != k or len(bv) != 1:
            return False
        if av[r] != bv[0]:
            if not close_enough((av[r],), bv, ULP_REL):
                # activation degrees live on the scale of 1: 1 - (1 - 6.7e-16) vs 0 is the same last-bit noise
                x, y = (float("nan") if t == "nan" else float.fromhex(t) for t in (av[r], bv[0]))
                if not (x == x and y == y and abs(x - y) <= ULP_REL):
                    return False
            differs = True
    return differs


def exc_site(e: BaseException) -> str:
    tb = e.__traceback__
    last = None
    while tb is not None:
        if tb.tb_frame.f_code.co_filename.startswith(env.FL_DIR):
            last = tb
        tb = tb.tb_next
    if last is None:
        return "?"
    c = last.tb_frame.f_code
    return f"{c.co_filename.rsplit('/', 1)[-1]}:{c.co_name}"


class C02(Sim):
    pid = "C02"
    level = "exploration"
    rule = ("A case is one generated engine (General activation; swarm over all term / norm / hedge / defuzzifier "
            "classes, lock-previous / default / lock-range settings, outputs in antecedents, Linear and Function terms) "
            "plus a history of ops {segment of 1..16 rows set through per-variable arrays, the input matrix or a 1-D "
            "vector; restart; clear an output; change an output setting}; replica A processes each segment as a batch, "
            "replica B the same rows one at a time as Python floats; per-row values and fuzzy values of every enabled "
            "output and exception parity are compared after every segment. Non-trivial = at least one segment of >= 2 "
            "rows compared. Distinct = distinct (component-class multiset, output settings, segment sizes, setter kinds).")
    assumptions = [
        "Function terms that read an output variable's value are excluded (the replicas differ by construction there)",
        "a size-1 value / fuzzy value on the batch side stands for every row of the segment (NumPy broadcasting; observation D4)",
        "values and fuzzy values are compared bit for bit (canonical floats: NaN == NaN, -0.0 == 0.0); the last-bit allowance of earlier versions is gone: after repair D7 it had not fired once in 96 000 quick runs, every difference it had ever tolerated was D7",
        "previous_value is not compared (legitimately differs between a k-row batch and k single rows)",
    ]
    real_vs_stub = {"both replicas: Engine, variables, terms, norms, hedges, rules, activation, defuzzifiers": "real",
                    "row source, segmentation, setter choice": "simulator"}
    tiers = {"quick": (12000, 75.0), "thorough": (2000000, 1500.0)}
    chunk = 20
    expected_probes = [
        "nan_row_after_boundary_lock_previous", "nan_first_row_after_restart_with_default", "out_of_range_row_lock_range",
        "one_row_segment", "matrix_setter_single_input", "all_nan_segment", "parity_event", "hybrid_engine",
        "output_variable_in_antecedent", "vector_setter", "cascade_changed_a_row", "configuration_changed_between_segments", "scalar0d_setter", "mixed_family_output_with_disjoint_rules", "shipped_example_engine", "output_matrix_compared", "input_arrays_refilled_in_place", "one_row_as_0d_arrays", "strided_view_batch", "readonly_batch", "integer_typed_batch", "float32_batch",
    ]

    def prepare(self) -> None:
        S.load_example_specs()

    # ---------------------------------------------------------------- generation
    def cases(self, rng, run: int, tier: str) -> Iterator[dict]:
        if rng.random() < (0.004 if tier == "quick" else 0.01):
            yield self._huge_case(rng)
            return
        sp = S.gen_spec(rng, activations=S.GENERAL, fn_reads_output=False, norm_functions=True, user_terms=["DomainRamp", "InputGain"], many_inputs=0.04)
        r0 = rng.random()
        if r0 < 0.06:
            S.make_hybrid_output(rng, sp)
        elif r0 < 0.18:
            sp = S.example_spec(rng) or sp  # one of the 61 shipped engines
        n_ops = rng.randint(2, 10 if tier == "quick" else 16)
        maxrows = rng.choice([2, 4, 8, 16])
        if rng.random() < (0.03 if tier == "quick" else 0.08):
            maxrows = rng.choice([17, 31, 32, 33, 64, 129])  # occasional long batches (block sizes of vectorised loops)
        special = rng.choice([0.05, 0.2, 0.2, 0.5])
        ops = []
        for _ in range(n_ops):
            r = rng.random()
            if r < 0.74:
                k = rng.choice([1, 1, 2, 3, rng.randint(1, maxrows), maxrows])
                prev = ops[-1] if ops and ops[-1]["op"] == "seg" else None
                if prev and prev["setter"] in ("vars", "inplace") and len(prev["rows"]) > 1 and rng.random() < 0.35:
                    k = len(prev["rows"])  # same size as the batch before: candidate for an in-place refill
                    force_inplace = True
                else:
                    force_inplace = False
                if rng.random() < 0.06:
                    rows = [[fenc(float("nan"))] * len(sp["inputs"]) for _ in range(k)]
                else:
                    rows = [S.draw_row(rng, sp, special) for _ in range(k)]
                    if rng.random() < 0.25:
                        rows[0] = [fenc(float("nan"))] * len(sp["inputs"])
                setter = rng.choice(["vars", "vars", "matrix", "matrix", "vector", "scalar0d", "inplace", "inplace", "np0d"])
                if force_inplace:
                    setter = "inplace"
                if setter == "scalar0d":
                    rows = [[rows[0][0]] * len(sp["inputs"])]
                seg = {"op": "seg", "rows": rows, "setter": setter}
                lay = rng.random()
                if lay < 0.08:
                    seg["layout"] = "view"
                elif lay < 0.16:
                    seg["layout"] = "readonly"
                elif lay < 0.24:
                    seg["layout"] = "float32"
                elif lay < 0.30:
                    seg["layout"] = "mixed"
                ops.append(seg)
            elif r < 0.82:
                if rng.random() < 0.5:
                    ops.append({"op": "toggle", "path": EO.gen_toggle_path(rng, sp)})
                else:
                    ops.append({"op": "edit", "edit": EO.gen_edit(rng, sp)})
            elif r < 0.87:
                ops.append({"op": "restart"})
            elif r < 0.91:
                ops.append({"op": "clear", "out": rng.randrange(2)})
            else:
                key = rng.choice(["lock_previous", "lock_range", "default", "enabled"])
                v = (rng.random() < 0.6) if key != "default" else fenc(rng.choice([float("nan"), 0.0, 0.5, 2.0, -1.0]))
                ops.append({"op": "set", "out": rng.randrange(2), "key": key, "v": v})
        tr = {"arm": "clean", "config": sp, "ops": ops}
        if rng.random() < 0.03:
            tr["debugging"] = True
        yield tr

    def _huge_case(self, rng) -> dict:
        """One batch of more than 8192 rows (NumPy's buffered iterators and block-wise loops work in chunks of 8192
        elements) on a small engine with lock-previous on, NaN runs placed across the multiples of 8192 and at the
        ends. The reference replica is fed in sub-batches of 61 rows (row-by-row would cost seconds); by the property
        every segmentation equals row-by-row processing, so a difference between two segmentations is a violation."""
        sp = S.gen_spec(rng, activations=S.GENERAL, fn_reads_output=False, max_inputs=1, max_outputs=1, max_blocks=1, max_rules=3,
                        depth=1, disabled=0.0, mixed_types=0.0)
        o = sp["outputs"][0]
        o["lock_previous"] = True
        o["enabled"] = True
        if o["defuzzifier"] and "resolution" in o["defuzzifier"]:
            o["defuzzifier"]["resolution"] = 10
        sp["inputs"][0]["enabled"] = True
        k = rng.choice([8193, 8200, 8256, 16390])
        rows = [S.draw_row(rng, sp, 0.02) for _ in range(64)]
        rows = [rows[i % 64] for i in range(k)]
        nanrow = [fenc(float("nan"))] * len(sp["inputs"])
        for m in range(8192, k + 1, 8192):
            for j in range(m - rng.randint(1, 4), min(k, m + rng.randint(0, 4))):
                rows[j] = nanrow
        for _ in range(rng.randint(0, 3)):
            a = rng.randrange(k)
            for j in range(a, min(k, a + rng.randint(1, 5))):
                rows[j] = nanrow
        ops = [{"op": "seg", "rows": [S.draw_row(rng, sp, 0.0) for _ in range(2)], "setter": "vars"},
               {"op": "seg", "rows": rows, "setter": rng.choice(["vars", "matrix"])}]
        return {"arm": "huge", "config": sp, "ops": ops}

    # ---------------------------------------------------------------- execution
    def execute(self, trace: dict, keep_log: bool = False) -> Outcome:
        out = Outcome()
        st = out.stats
        st.hit("arms." + trace.get("arm", "clean"))
        sp = trace["config"]
        dig = Digest()
        log = [] if keep_log else None

        def emit(line: str) -> None:
            dig.add(line)
            if log is not None:
                log.append(line)

        if trace.get("debugging"):
            fl.settings.debugging = True
            st.hit("probes.library_debug_mode")
        try:
            A, B = S.build(sp), S.build(sp)
        except Exception as e:  # invalid spec (only reachable through shrinking / hand edits)
            out.stats.hit("outcomes.build_failed")
            emit(f"BUILD-FAILED {type(e).__name__}")
            out.digest = dig.hex()
            out.log = log
            return out
        n_in = len(A.input_variables)
        for _cls in S.classes_of(sp):
            st.hit("classes." + _cls)
        fams = {o["family"] for o in sp["outputs"]}
        if len(fams) > 1:
            st.hit("probes.hybrid_engine")
        if sp.get("flags", {}).get("example"):
            st.hit("probes.shipped_example_engine")
        if sp.get("flags", {}).get("hybrid_output"):
            st.hit("probes.mixed_family_output_with_disjoint_rules")
        outs = {o["name"] for o in sp["outputs"]}
        if any(S.ast_vars(r["ant"]) & outs for b in sp["blocks"] for r in b["rules"]):
            st.hit("probes.output_variable_in_antecedent")
        classes = sorted({t["cls"] for v in sp["inputs"] + sp["outputs"] for t in v["terms"]}
                         | {b[k] or "-" for b in sp["blocks"] for k in ("conjunction", "disjunction", "implication")}
                         | {(o["defuzzifier"] or {"cls": "-"})["cls"] for o in sp["outputs"]})
        sig = [",".join(classes), ";".join(f"{int(o['lock_previous'])}{int(o['lock_range'])}{o['default'] != 'nan'}" for o in sp["outputs"])]
        after_restart = True
        compared_batches = 0
        held: list = []
        for i, op in enumerate(trace["ops"]):
            st.hit("ops")
            kind = op["op"]
            if kind == "restart":
                A.restart()
                B.restart()
                after_restart = True
                emit(f"{i} restart")
                sig.append("R")
                continue
            if kind == "clear":
                j = op["out"] % len(A.output_variables)
                A.output_variables[j].clear()
                B.output_variables[j].clear()
                emit(f"{i} clear {j}")
                sig.append("C")
                continue
            if kind in ("toggle", "edit"):
                for e in (A, B):
                    if kind == "toggle":
                        EO.toggle(e, op["path"])
                    else:
                        EO.apply_edit(e, op["edit"])
                st.hit("probes.configuration_changed_between_segments")
                emit(f"{i} {kind} {op.get('path') or op['edit']['t']}")
                sig.append(kind[0].upper())
                continue
            if kind == "set":
                j = op["out"] % len(A.output_variables)
                for e in (A, B):
                    ov = e.output_variables[j]
                    if op["key"] == "default":
                        ov.default_value = fdec(op["v"])
                    else:
                        setattr(ov, op["key"], bool(op["v"]))
                emit(f"{i} set {j} {op['key']}={op['v']}")
                sig.append("S")
                continue
            # ---- a segment
            rows = [[fdec(v) for v in row][:n_in] + [float("nan")] * max(0, n_in - len(row)) for row in op["rows"]]
            k = len(rows)
            if k == 0:
                continue
            setter = op["setter"]
            arr = np.array(rows, dtype=float).reshape(k, n_in)
            if op.get("layout") == "float32":
                # the batch arrives as float32 (sensor data, files): both replicas get the float32-rounded values, the
                # batch replica as float32 arrays, the row replica as Python floats
                arr = arr.astype(np.float32).astype(np.float64)
            if op.get("layout") == "mixed":
                # per-variable arrays of different types (columns of a table with mixed column types): the first input is
                # narrower than the others - int64 when its values are integral, else float32 (rounded for both replicas)
                c0 = arr[:, 0]
                if not (np.isfinite(c0).all() and (c0 == np.floor(c0)).all() and not (np.signbit(c0) & (c0 == 0)).any() and (np.abs(c0) < 2**31).all()):
                    arr[:, 0] = c0.astype(np.float32).astype(np.float64)
            if setter == "vector" and not (n_in == 1 or k == 1):
                setter = "matrix"
            if setter == "scalar0d":
                # a 0-d array sets every input variable to the same single value
                if k == 1 and len({repr(x) for x in arr[0]}) == 1:
                    st.hit("probes.scalar0d_setter")
                else:
                    setter = "vars"
            sig.append(f"{setter[0]}{k}")
            if k == 1:
                st.hit("probes.one_row_segment")
            if np.isnan(arr).all():
                st.hit("probes.all_nan_segment")
            any_lp = any(ov.lock_previous and ov.enabled for ov in A.output_variables)
            if any_lp and np.isnan(arr[0]).all() and not after_restart:
                st.hit("probes.nan_row_after_boundary_lock_previous")
            if after_restart and np.isnan(arr[0]).all() and any(not np.isnan(ov.default_value) for ov in A.output_variables):
                st.hit("probes.nan_first_row_after_restart_with_default")
            if setter == "np0d" and k != 1:
                setter = "vars"
            if setter == "inplace":
                # the caller keeps the arrays it handed over and refills them in place for the next batch (legal: the
                # variable holds a reference). Only when the previous segment left k-row arrays of ours in every input
                # variable and no input clips (clipping stores a new array).
                ok = (k > 1 and len(held) == n_in and all(iv.value is h and h.shape == (k,) and h.dtype == np.float64 and h.flags.writeable for iv, h in zip(A.input_variables, held))
                      and not any(iv.lock_range for iv in A.input_variables))
                if not ok:
                    setter = "vars"
            ea = eb = None
            eb_row = -1
            try:
                if setter == "np0d":
                    for c, iv in enumerate(A.input_variables):
                        iv.value = np.array(arr[0, c])  # one row as 0-d arrays (fl.scalar(x)): mutable scalars
                    st.hit("probes.one_row_as_0d_arrays")
                elif setter == "inplace":
                    for c, h in enumerate(held):
                        h[...] = arr[:, c]
                    st.hit("probes.input_arrays_refilled_in_place")
                elif setter == "vars":
                    held = [arr[:, c].copy() for c in range(n_in)]
                    if all(np.isfinite(h).all() and (h == np.floor(h)).all() and not (np.signbit(h) & (h == 0)).any() and (np.abs(h) < 2**31).all() for h in held):
                        # an all-integral batch handed over as integer arrays (users write np.array([0, 1, 2]))
                        held = [h.astype(np.int64) for h in held]
                        st.hit("probes.integer_typed_batch")
                    elif op.get("layout") == "view":
                        # columns of a bigger table: strided, non-contiguous views (users write data[:, 3])
                        big = np.full((k, 2 * n_in + 1), 7.25)
                        for c in range(n_in):
                            big[:, 2 * c + 1] = arr[:, c]
                        held = [big[:, 2 * c + 1] for c in range(n_in)]
                        st.hit("probes.strided_view_batch")
                    elif op.get("layout") == "float32":
                        held = [h.astype(np.float32) for h in held]
                        st.hit("probes.float32_batch")
                    elif op.get("layout") == "mixed":
                        c0 = held[0]
                        integral = np.isfinite(c0).all() and (c0 == np.floor(c0)).all() and not (np.signbit(c0) & (c0 == 0)).any() and (np.abs(c0) < 2**31).all()
                        held[0] = c0.astype(np.int64 if integral else np.float32)
                        st.hit("probes.mixed_type_batch")
                    elif op.get("layout") == "readonly":
                        for h in held:
                            h.setflags(write=False)  # e.g. memory-mapped or broadcast data
                        st.hit("probes.readonly_batch")
                    for c, iv in enumerate(A.input_variables):
                        iv.value = held[c]
                elif setter == "matrix":
                    A.input_values = arr.astype(np.float32) if op.get("layout") == "float32" else arr.copy()
                    if n_in == 1:
                        st.hit("probes.matrix_setter_single_input")
                elif setter == "scalar0d":
                    A.input_values = np.array(arr[0, 0])
                else:
                    A.input_values = (arr[:, 0] if n_in == 1 else arr[0, :]).copy()
                    st.hit("probes.vector_setter")
                A.process()
            except Exception as e:
                ea = e
            huge = k > 200
            if huge:
                st.hit("probes.batch_longer_than_8192_rows" if k > 8192 else "probes.batch_longer_than_200_rows")
            b_vals: list[list[tuple]] = []
            b_fuz: list[list[tuple]] = []
            b_deg: list[list[list]] = []
            b_mat: list = []
            step = 61 if huge else 1
            for r in range(0, k, step):
                try:
                    if huge:  # reference = another segmentation (sub-batches of 61 rows)
                        for c, iv in enumerate(B.input_variables):
                            iv.value = arr[r:r + step, c].copy()
                        B.process()
                        n_sub = len(arr[r:r + step])
                        cols = [bcast(cv(ov.value), n_sub) for ov in B.output_variables]
                        fuzs = [bcast(cs(ov.fuzzy_value()), n_sub) for ov in B.output_variables]
                        for q in range(n_sub):
                            b_vals.append([(col[q],) for col in cols])
                            b_fuz.append([(fz[q],) for fz in fuzs])
                            b_deg.append([[] for _ in B.output_variables])
                            b_mat.append(None)
                        continue
                    for c, iv in enumerate(B.input_variables):
                        iv.value = float(arr[r, c])
                    B.process()
                except Exception as e:
                    eb, eb_row = e, r
                    break
                b_vals.append([cv(ov.value) for ov in B.output_variables])
                b_fuz.append([cs(ov.fuzzy_value()) for ov in B.output_variables])
                b_deg.append([[(a.term.name, cv(a.degree)) for a in ov.fuzzy.terms] for ov in B.output_variables])
                try:
                    b_mat.append(cv(B.output_values))
                except Exception:
                    b_mat.append(None)
            after_restart = False
            if (ea is None) != (eb is None):
                e = ea or eb
                which = "batch_raises_rows_accept" if ea is not None else "rows_raise_batch_accepts"
                out.violation = Violation(which, i, exception=type(e).__name__, message=str(e)[:200], site=exc_site(e),
                                          rows=k, row=eb_row, setter=setter)
                emit(f"{i} seg {k} PARITY-VIOLATION {which} {type(e).__name__}")
                break
            if ea is not None:
                st.hit("probes.parity_event")
                st.hit("outcomes.both_raised_" + type(ea).__name__)
                emit(f"{i} seg {k} both raised A={type(ea).__name__} B={type(eb).__name__}@{eb_row}")
                A.restart()
                B.restart()
                after_restart = True
                continue
            st.hit("outcomes.segment_compared")
            if k >= 2:
                compared_batches += 1
            viol = None
            line = []
            for j, ov in enumerate(A.output_variables):
                if not ov.enabled:
                    continue
                a_val = bcast(cv(ov.value), k)
                a_fuz = bcast(cs(ov.fuzzy_value()), k)
                a_deg_j = [(a.term.name, bcast(cv(a.degree), k)) for a in ov.fuzzy.terms]
                if len(a_val) != k or len(a_fuz) != k:
                    viol = Violation("batch_output_has_wrong_length", i, output=j, rows=k, got=len(a_val))
                    break
                for r in range(k):
                    bv, bf = b_vals[r][j], b_fuz[r][j]
                    if len(bv) != 1:
                        viol = Violation("row_output_is_not_scalar", i, output=j, row=r, size=len(bv))
                        break
                    if a_val[r] != bv[0]:
                        # "the same output values": bit for bit (canonical floats: NaN == NaN, -0.0 == 0.0). A last-bit difference
                        # is reported like any other; `last_bit` only says how large it is (see DESIGN 9.4, "noise" that was D7)
                        viol = Violation("batch_value_differs_from_row_value", i, output=j, row=r, rows=k, batch=a_val[r],
                                         single=bv[0], setter=setter, defuzzifier=(sp["outputs"][j]["defuzzifier"] or {"cls": "None"})["cls"],
                                         last_bit=bool(close_enough((a_val[r],), bv, ULP_REL) or degrees_close_not_equal(a_deg_j, b_deg[r][j], r, k)))
                        break
                    if a_fuz[r] != bf[0]:
                        viol = Violation("batch_fuzzy_value_differs_from_row", i, output=j, row=r, rows=k, batch=a_fuz[r],
                                         single=bf[0], setter=setter, last_bit=bool(degrees_close_not_equal(a_deg_j, b_deg[r][j], r, k)))
                        break
                if viol:
                    break
                line.append(",".join(a_val))
            if viol is None and all(ov.enabled for ov in A.output_variables):
                # the engine-level getter: rows x outputs matrix (observation point named by the property). When the
                # columns have different lengths it raises (observation D4, not judged); otherwise it must tabulate
                # exactly the per-variable values already compared above.
                try:
                    mat = np.asarray(A.output_values, dtype=float)
                except Exception as e:
                    mat = None
                    st.hit("outcomes.output_matrix_getter_raised")
                    if all(m is not None for m in b_mat) and len(b_mat) == k and not huge:
                        # Engine.output_values is the observation point the property names: it works after every single row
                        # but raises after the same rows as one batch (an output that holds one value for the whole batch)
                        viol = Violation("output_matrix_getter_raises_in_batch_mode", i, exception=type(e).__name__, message=str(e)[:160],
                                         rows=k, shapes=str([np.shape(ov.value) for ov in A.output_variables]))
                if mat is not None and mat.shape == (k, len(A.output_variables)) and all(m is not None for m in b_mat):
                    st.hit("probes.output_matrix_compared")
                    for r in range(k):
                        want = tuple(b_vals[r][j][0] for j in range(len(A.output_variables)))
                        got = cv(mat[r])
                        if got != want and got != b_mat[r]:
                            viol = Violation("engine_output_matrix_differs_from_rows", i, row=r, rows=k, got=list(got), expected=list(want))
                            break
            if viol is None:
                # probes on the cascade (computed from the agreed values)
                for j, ov in enumerate(A.output_variables):
                    if ov.enabled and (ov.lock_previous or ov.lock_range or not np.isnan(ov.default_value)):
                        st.hit("probes.cascade_active_segment")
                        vals = np.atleast_1d(np.asarray(ov.value, dtype=float))
                        if ov.lock_range and ((vals == ov.minimum) | (vals == ov.maximum)).any():
                            st.hit("probes.out_of_range_row_lock_range")
                        if (not np.isnan(ov.default_value) and (vals == ov.default_value).any()) or (
                                ov.lock_previous and np.isnan(arr).all(axis=1).any() and not np.isnan(vals).all()):
                            st.hit("probes.cascade_changed_a_row")
            emit(f"{i} seg {k} {setter} -> " + " | ".join(line))
            if viol is not None:
                out.violation = viol
                break
        out.nontrivial = compared_batches > 0
        out.signature = "|".join(sig)
        out.digest = dig.hex()
        out.log = log
        return out

    # ---------------------------------------------------------------- shrinking
    def shrink_passes(self):
        return [self._shrink_spec, self._shrink_rows, self._shrink_spec]

    def _shrink_spec(self, trace: dict) -> Iterator[dict]:
        for s in S.simplify_spec_candidates(trace["config"]):
            c = dict(trace)
            c["config"] = s
            yield c

    def _shrink_rows(self, trace: dict) -> Iterator[dict]:
        ops = trace["ops"]
        for i, op in enumerate(ops):
            if op["op"] == "seg":
                if len(op["rows"]) > 1:
                    for j in range(len(op["rows"])):
                        c = copy.deepcopy(trace)
                        del c["ops"][i]["rows"][j]
                        yield c
                if op["setter"] != "vars":
                    c = copy.deepcopy(trace)
                    c["ops"][i]["setter"] = "vars"
                    yield c
                for j, row in enumerate(op["rows"]):
                    for c_, v in enumerate(row):
                        for simple in (0.5, 0.0, "nan"):
                            if v != simple:
                                c = copy.deepcopy(trace)
                                c["ops"][i]["rows"][j][c_] = simple
                                yield c


SIM = C02()
