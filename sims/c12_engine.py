"""C12 harness B — the cascade inside a whole engine with real defuzzifiers.

Raw defuzzified values come from a twin engine (same spec, cascade switched off); the reference model
of c12_cascade is applied to them and compared with the engine under test after every process().
Failures are injected through faulty components (same class name), a missing defuzzifier and FP traps.
"""
from __future__ import annotations

import copy
from typing import Iterator

import numpy as np

from simkit import env, spec as S
from simkit.canon import cv, fdec, fenc, fx
from simkit.core import EXC_NAMES, Outcome, Violation
from simkit.faults import Armed, FpTrap
from simkit.rng import Digest

fl = env.fl


def cases(rng, run: int, tier: str) -> Iterator[dict]:
    sp = S.gen_spec(rng, activations=S.GENERAL, fn_reads_output=False, disabled=0.05, norm_functions=True, user_terms=["InputGain"])
    if rng.random() < 0.12:
        sp = S.example_spec(rng, randomise_cascade=False) or sp
    # make the cascade interesting: most outputs get some setting
    for o in sp["outputs"]:
        if rng.random() < 0.7:
            o["lock_previous"] = rng.random() < 0.6
            o["lock_range"] = rng.random() < 0.5
            lo, hi = fdec(o["min"]), fdec(o["max"])
            o["default"] = fenc(rng.choice([float("nan"), float("nan"), lo, hi, (lo + hi) / 2, hi + 1.0, lo - 1.0]))
    n_out = len(sp["outputs"])
    ops = []
    for _ in range(rng.randint(3, 12 if tier == "quick" else 18)):
        r = rng.random()
        k = rng.choice([1, 1, 1, 2, 3, 5])
        special = rng.choice([0.1, 0.3, 0.6])
        rows = [S.draw_row(rng, sp, special) for _ in range(k)]
        if rng.random() < 0.3:
            rows[rng.randrange(k)] = [fenc(float("nan"))] * len(sp["inputs"])
        if r < 0.60:
            ops.append({"op": "proc", "rows": rows})
        elif r < 0.80:
            kind = rng.choice(["faulty_defuzz", "faulty_defuzz", "none_defuzz", "faulty_component", "faulty_component", "fptrap"])
            ops.append({"op": "fault", "kind": kind, "out": rng.randrange(n_out), "n": rng.choice([1, 1, 2, 3, 5, 9]),
                        "exc": rng.choice(EXC_NAMES), "comp": rng.randrange(64), "rows": rows})
        elif r < 0.86:
            ops.append({"op": "restart"})
        elif r < 0.90:
            ops.append({"op": "clear", "out": rng.randrange(n_out)})
        else:
            key = rng.choice(["lock_previous", "lock_range", "default", "enabled"])
            v = (rng.random() < 0.6) if key != "default" else fenc(rng.choice([float("nan"), 0.0, 0.5, 2.0, -1.0]))
            ops.append({"op": "set", "out": rng.randrange(n_out), "key": key, "v": v})
    tr = {"arm": "engine", "config": sp, "ops": ops}
    if rng.random() < 0.04:
        tr["debugging"] = True
    yield tr


def components(engine) -> list:
    """Deterministic list of fault sites: norms of blocks, aggregation, terms of all variables."""
    out = []
    for b in engine.rule_blocks:
        out += [c for c in (b.conjunction, b.disjunction, b.implication) if c is not None]
    for v in engine.output_variables:
        if v.aggregation is not None:
            out.append(v.aggregation)
    for v in engine.input_variables + engine.output_variables:
        out += list(v.terms)
    return out


def fuzzy_snapshot(agg) -> tuple:
    return tuple((a.term.name, cv(a.degree), type(a.implication).__name__) for a in agg.terms)


def execute(trace: dict, keep_log: bool = False) -> Outcome:
    from sims.c12_cascade import Model
    out = Outcome()
    st = out.stats
    st.hit("arms.engine")
    sp = trace["config"]
    dig = Digest()
    log = [] if keep_log else None

    def emit(line: str) -> None:
        dig.add(line)
        if log is not None:
            log.append(line)

    if trace.get("debugging"):
        fl.settings.debugging = True
        st.hit("probes.library_debug_mode")
    tw_spec = copy.deepcopy(sp)
    for o in tw_spec["outputs"]:
        o["lock_previous"], o["lock_range"], o["default"] = False, False, "nan"
    try:
        E, T = S.build(sp), S.build(tw_spec)
    except Exception as e:
        st.hit("outcomes.build_failed")
        emit(f"BUILD-FAILED {type(e).__name__}")
        out.digest, out.log = dig.hex(), log
        return out
    n_in = len(E.input_variables)
    for _cls in S.classes_of(sp):
        st.hit("classes." + _cls)
    models = [Model({"min": o["min"], "max": o["max"], "lock_range": o["lock_range"], "lock_previous": o["lock_previous"],
                     "default": o["default"], "enabled": o["enabled"]}) for o in sp["outputs"]]
    sig = [";".join(f"{int(o['lock_previous'])}{int(o['lock_range'])}{o['default'] != 'nan'}{(o['defuzzifier'] or {'cls': '---'})['cls'][:3]}" for o in sp["outputs"])]
    changed = False

    def set_inputs(engine, rows):
        arr = np.array([[fdec(v) for v in row][:n_in] + [float("nan")] * max(0, n_in - len(row)) for row in rows], dtype=float)
        arr = arr.reshape(len(rows), n_in)
        for c, iv in enumerate(engine.input_variables):
            iv.value = float(arr[0, c]) if len(rows) == 1 else arr[:, c].copy()

    def resync(why: str):
        st.hit("outcomes.resync_" + why)
        E.restart()
        T.restart()
        for m in models:
            m.clear()

    def check(i: int, kind: str):
        for j, (ov, m) in enumerate(zip(E.output_variables, models)):
            got, want = cv(ov.value), tuple(fx(c) for c in m.cur)
            if got != want:
                return Violation("engine_value_differs_from_cascade_model", i, opkind=kind, output=j, got=list(got),
                                 expected=list(want), defuzzifier=(sp["outputs"][j]["defuzzifier"] or {"cls": "None"})["cls"])
            if fx(ov.previous_value) != fx(m.prev):
                return Violation("engine_previous_value_differs_from_model", i, opkind=kind, output=j,
                                 got=fx(ov.previous_value), expected=fx(m.prev))
        return None

    for i, op in enumerate(trace["ops"]):
        st.hit("ops")
        kind = op["op"]
        viol = None
        if kind == "restart":
            E.restart()
            T.restart()
            for m in models:
                m.clear()
            sig.append("R")
            emit(f"{i} restart")
        elif kind == "clear":
            j = op["out"] % len(models)
            E.output_variables[j].clear()
            models[j].clear()
            sig.append("C")
            emit(f"{i} clear {j}")
        elif kind == "set":
            j = op["out"] % len(models)
            ov, m = E.output_variables[j], models[j]
            if op["key"] == "default":
                ov.default_value = fdec(op["v"])
                m.set("default_value", op["v"])
            elif op["key"] == "enabled":
                ov.enabled = T.output_variables[j].enabled = bool(op["v"])
                m.set("enabled", op["v"])
            else:
                setattr(ov, op["key"], bool(op["v"]))
                m.set(op["key"], op["v"])
            sig.append("S")
            emit(f"{i} set {j} {op['key']}={op['v']}")
        elif kind in ("proc", "fault"):
            rows = op["rows"]
            k = len(rows)
            set_inputs(E, rows)
            set_inputs(T, rows)
            try:
                T.process()
                raw = [cv(tv.value) for tv in T.output_variables]
                t_exc = None
            except Exception as e:
                t_exc, raw = e, None
            before = [(cv(ov.value), fx(ov.previous_value)) for ov in E.output_variables]
            entry: dict[int, tuple] = {}  # fuzzy output of each variable at the instant its defuzzifier was entered
            probes = [Armed(ov.defuzzifier, 10**9, "ValueError", on_call=lambda agg, j=j: entry.__setitem__(j, fuzzy_snapshot(agg)))
                      if ov.defuzzifier is not None else None for j, ov in enumerate(E.output_variables)]
            injector = None
            restore = None
            snap: dict = {}
            fkind = op.get("kind")
            if kind == "fault":
                j = op["out"] % len(models)
                ov = E.output_variables[j]
                if fkind == "faulty_defuzz" and ov.defuzzifier is not None:
                    probes[j] = None
                    injector = Armed(ov.defuzzifier, 1, op["exc"], snapshot=lambda agg: snap.setdefault("fuzzy", fuzzy_snapshot(agg)),
                                     on_call=lambda agg, j=j: entry.__setitem__(j, fuzzy_snapshot(agg)))
                elif fkind == "none_defuzz":
                    saved = ov.defuzzifier
                    ov.defuzzifier = None
                    probes[j] = None
                    snap["none"] = j

                    def restore(ov=ov, saved=saved):
                        ov.defuzzifier = saved
                elif fkind == "faulty_component":
                    comps = components(E)
                    injector = Armed(comps[op["comp"] % len(comps)], op["n"], op["exc"])
                elif fkind == "fptrap":
                    injector = FpTrap()
            raised = None
            try:
                for p in probes:
                    if p is not None:
                        p.__enter__()
                if injector is not None:
                    injector.__enter__()
                try:
                    E.process()
                except BaseException as e:  # noqa: BLE001
                    raised = e
            finally:
                if injector is not None:
                    injector.__exit__(None, None, None)
                for p in probes:
                    if p is not None:
                        p.__exit__(None, None, None)
                if restore:
                    restore()
            np.seterr(all="ignore")
            called = [bool(p.state["calls"]) if p is not None else None for p in probes]
            if isinstance(injector, Armed):
                jdef = op["out"] % len(models)
                if fkind == "faulty_defuzz":
                    called[jdef] = injector.state["calls"] > 0
            if raised is None:
                if t_exc is not None:
                    resync("twin_raised_engine_did_not")
                    emit(f"{i} {kind} twin-only failure {type(t_exc).__name__}")
                    continue
                for j, m in enumerate(models):
                    m.call([float.fromhex(x) if x != "nan" else float("nan") for x in raw[j]], st)
                sig.append(f"p{k}")
                st.hit("outcomes.processed")
                emit(f"{i} {kind} ok " + " | ".join(",".join(cv(ov.value)) for ov in E.output_variables))
            else:
                injected = getattr(raised, "_sim_injected", False) or (fkind in ("none_defuzz", "fptrap") and isinstance(raised, Exception))
                if not isinstance(raised, Exception) and not injected:
                    raise raised
                if not injected or t_exc is not None:
                    # natural failure (a misconfiguration both engines share): the raw values of the outputs defuzzified
                    # before it are unknown, but "if defuzzification raises, value, previous value and fuzzy output are
                    # unchanged" can still be judged for the variable whose defuzzifier was running and the ones after it
                    # the variable whose defuzzifier was entered and did not return
                    idx = [j for j, p in enumerate(probes) if p is not None and p.state["calls"] > p.state.get("returned", 0)]
                    f = idx[-1] if idx else None
                    if f is not None and isinstance(raised, Exception):
                        st.hit("probes.natural_failure_inside_a_defuzzifier")
                        for j in range(f, len(models)):
                            ov = E.output_variables[j]
                            if (cv(ov.value), fx(ov.previous_value)) != before[j]:
                                viol = Violation("state_changed_by_failed_defuzzification", i, output=j, failing_output=f, fault="natural",
                                                 exception=type(raised).__name__)
                                break
                        if viol is None and f in entry and fuzzy_snapshot(E.output_variables[f].fuzzy) != entry[f]:
                            viol = Violation("fuzzy_output_changed_by_failed_defuzzification", i, output=f, fault="natural",
                                             exception=type(raised).__name__)
                    if viol is not None:
                        out.violation = viol
                        break
                    resync("natural_failure")
                    emit(f"{i} {kind} natural failure {type(raised).__name__}")
                    continue
                st.hit(f"faults.{fkind}_{type(raised).__name__}")
                # which output was being defuzzified when it failed?
                if fkind == "none_defuzz":
                    f = snap["none"]
                else:
                    armed = list(probes)
                    if isinstance(injector, Armed) and fkind == "faulty_defuzz":
                        armed[op["out"] % len(models)] = injector
                    idx = [j for j, p in enumerate(armed) if p is not None and p.state["calls"] > p.state.get("returned", 0)]
                    f = idx[-1] if idx else None
                    if f is None and any(called):
                        # every entered defuzzifier returned: the failure came from outside a defuzzifier call
                        st.hit("outcomes.injected_failure_outside_defuzzifier_after_some_outputs")
                        f = max(j for j, c in enumerate(called) if c) + 1
                        f = f if f < len(models) else None
                        if f is None:
                            resync("failure_after_all_outputs")
                            continue
                    if f is None:
                        st.hit("probes.failure_during_activation")
                    else:
                        st.hit("probes.failure_during_defuzzification")
                if f is not None and f > 0:
                    st.hit("probes.failure_between_two_outputs")
                n_done = len(models) if f is None else f
                if f is None:
                    n_done = 0
                for j, m in enumerate(models):
                    if j < n_done:
                        m.call([float.fromhex(x) if x != "nan" else float("nan") for x in raw[j]], st)
                # outputs >= f must be exactly as before
                for j in range(n_done, len(models)):
                    ov = E.output_variables[j]
                    if (cv(ov.value), fx(ov.previous_value)) != before[j]:
                        viol = Violation("state_changed_by_failed_defuzzification", i, output=j, failing_output=f,
                                         fault=fkind, exception=type(raised).__name__,
                                         before=list(before[j][0]) + [before[j][1]],
                                         after=list(cv(ov.value)) + [fx(ov.previous_value)])
                        break
                if viol is None and f is not None and (f in entry or "fuzzy" in snap):
                    ref = entry.get(f, snap.get("fuzzy"))
                    if fuzzy_snapshot(E.output_variables[f].fuzzy) != ref:
                        viol = Violation("fuzzy_output_changed_by_failed_defuzzification", i, output=f, fault=fkind)
                    elif ref:
                        st.hit("probes.failure_with_nonempty_fuzzy_output")
                sig.append(f"F{fkind[:8]}{'a' if f is None else f}")
                emit(f"{i} fault {fkind} raised {type(raised).__name__} at_output={f}")
        if viol is None:
            viol = check(i, kind)
        if viol is not None:
            out.violation = viol
            break
        changed = changed or any(st.get("probes." + p, 0) for p in (
            "fill_forward_inside_batch", "fill_forward_across_call_boundary", "default_applied",
            "default_applied_after_lock_previous_miss", "value_clipped")) or any(x.startswith("faults.") for x in st)
    out.nontrivial = bool(changed)
    out.signature = "|".join(sig)
    out.digest = dig.hex()
    out.log = log
    return out


def shrink_candidates(trace: dict) -> Iterator[dict]:
    for s in S.simplify_spec_candidates(trace["config"]):
        c = dict(trace)
        c["config"] = s
        yield c
    for i, op in enumerate(trace["ops"]):
        if "rows" in op and len(op["rows"]) > 1:
            for j in range(len(op["rows"])):
                c = copy.deepcopy(trace)
                del c["ops"][i]["rows"][j]
                yield c
        if op["op"] == "fault":
            c = copy.deepcopy(trace)
            c["ops"][i] = {"op": "proc", "rows": op["rows"]}
            yield c
