"""C20 — temporary settings are always restored.

Nested-context *programs* are generated, executed with the real `fl.settings.context` and Python's own
`with`, and compared statement by statement with a stack-of-frames model.  Crash points (an exception
of every kind at every dynamic statement position, caught at every enclosing level) are enumerated for
every raise-free base program of the enumeration arm.
"""
from __future__ import annotations

import logging
import sys
from typing import Iterator

import numpy as np

from simkit import env
from simkit.canon import attrs
from simkit.core import EXC_NAMES, SIM_EXC, Outcome, Sim, SimCrash, Violation, make_exc
from simkit.rng import Digest

fl = env.fl

KEYS = ["float_type", "decimals", "atol", "rtol", "alias", "logger", "factory_manager"]
VALUES = {
    "float_type": ["float64", "float32", "float16", "float"],
    # -1 / -1.0: values the library stores without complaint although its helpers cannot use them (a context
    # that fails half-way through *entering* must still leave every setting as it was)
    "decimals": list(range(10)) + [-1, 20],
    "atol": [0.0, 1e-9, 1e-3, 0.5, -1.0, "A2"],  # A2: a per-column tolerance array (np.isclose broadcasts it)
    "rtol": [0.0, 1e-6, 0.1, -1.0],
    "alias": ["fl", "", "*", "fz"],
    "logger": ["L0", "L1", "L2", "L3", "L4"],
    "factory_manager": ["F0", "F1", "F2"],
}
DEFAULT = {"float_type": "float64", "decimals": 3, "atol": 1e-3, "rtol": 0.0, "alias": "fl",
           "logger": "L0", "factory_manager": "F0"}
FLOAT_TYPES = {"float64": np.float64, "float32": np.float32, "float16": np.float16, "float": float}
OBS = ["str", "close", "dtype", "alias", "fm", "logger", "rule", "fll", "vars", "arr", "fld", "fld_late", "mkexp", "ruletext",
       "termparams", "tofloat", "xy", "pyexp", "fll_p", "imp", "func", "func_op", "dtype_arr", "str3d", "func_mod",
       "str_forms", "debug", "logrec", "conseq_hedge", "imp_ops", "configure", "const_dtype", "cmp", "fuzzify", "fll_engine"]

_POOL: dict[str, object] = {}


class Quite(fl.Hedge):
    def hedge(self, x):
        return x


class Tri2(fl.Triangle):
    pass


class Min2(fl.Minimum):
    pass


class Max2(fl.Maximum):
    pass


class Gen2(fl.General):
    pass


class Cen2(fl.Centroid):
    pass


class _ListHandler(logging.Handler):
    def __init__(self) -> None:
        super().__init__(level=logging.DEBUG)
        self.count = 0

    def emit(self, record) -> None:  # noqa: ARG002
        self.count += 1


_L3_HANDLER = _ListHandler()


def _twice(x):
    return 2.0 * x


def pool(code: str):
    if not _POOL:
        _POOL["L0"] = env.default_logger()
        for n in ("L1", "L2"):
            lg = logging.getLogger("verif." + n)
            lg.setLevel(logging.ERROR)
            lg.propagate = False
            _POOL[n] = lg
        # L3 is a logger at DEBUG level: while it is the logger in force the library is in debugging mode and its
        # debug records go to L3's handler (and nowhere else)
        l3 = logging.getLogger("verif.L3")
        l3.setLevel(logging.DEBUG)
        l3.propagate = False
        l3.addHandler(_L3_HANDLER)
        _POOL["L3"] = l3
        # L4 is a private logger: instantiated directly, not registered under its name in the logging module (a look-alike
        # obtained with logging.getLogger("verif.L4") would be another object)
        l4 = logging.Logger("verif.L4", level=logging.ERROR)
        l4.propagate = False
        _POOL["L4"] = l4
        _POOL["A2"] = np.array([1e-3, 1e-1])
        _POOL["F0"] = env.default_factory_manager()
        f1 = fl.FactoryManager()
        f1.hedge.constructors["quite"] = Quite
        f1.term.constructors["Tri2"] = Tri2
        f1.tnorm.constructors["Min2"] = Min2
        f1.snorm.constructors["Max2"] = Max2
        f1.activation.constructors["Gen2"] = Gen2
        f1.defuzzifier.constructors["Cen2"] = Cen2
        f1.function.objects["twice"] = fl.Function.Element("twice", "Twice", "Function", _twice, arity=1, precedence=100)
        div = f1.function.objects["/"]
        f1.function.objects["//"] = fl.Function.Element("//", "Floor division", "Operator", np.floor_divide, arity=2,
                                                        precedence=div.precedence, associativity=div.associativity)
        _POOL["F1"] = f1
        f2 = fl.FactoryManager()
        # F2 customises an element *in place* (users do `manager.function["%"].method = np.fmod`): factory managers must
        # not share element objects, or the customisation shows through every other manager
        f2.function.objects["%"].method = np.fmod
        _POOL["F2"] = f2
    return _POOL[code]


def realize(key: str, code):
    if key == "float_type":
        return FLOAT_TYPES[code]
    if key in ("logger", "factory_manager") or code == "A2":
        return pool(code)
    return code


def describe(key: str, real) -> str:
    """Address-free description of a settings value (replay files must be byte-stable)."""
    for code in VALUES[key]:
        if realize(key, code) is real:
            return repr(code)
    if key in ("float_type", "logger", "factory_manager"):
        return f"<unknown {type(real).__name__}>"
    return repr(real)[:60]


_ENGINE = None


def tiny_engine():
    global _ENGINE
    if _ENGINE is None:
        _ENGINE = fl.Engine(
            "t",
            input_variables=[fl.InputVariable("a", minimum=0, maximum=1, terms=[fl.Triangle("x", 0, 0.5, 1)])],
            output_variables=[fl.OutputVariable("b", minimum=0, maximum=1, terms=[fl.Triangle("y", 0, 0.5, 1)])],
        )
    return _ENGINE


_TS = None


def ts_engine():
    """Takagi-Sugeno engine whose output for input 0.5 is exactly 0.25 in every float type."""
    global _TS
    if _TS is None:
        _TS = fl.Engine(
            "ts",
            input_variables=[fl.InputVariable("a", minimum=0, maximum=1, terms=[fl.Triangle("x", 0, 0.5, 1)])],
            output_variables=[fl.OutputVariable("b", minimum=0, maximum=1, terms=[fl.Constant("k", 0.25)],
                                                defuzzifier=fl.WeightedAverage())],
            rule_blocks=[fl.RuleBlock("r", activation=fl.General(), rules=[fl.Rule.create("if a is x then b is k")])],
        )
    return _TS


class _Abort(BaseException):
    pass


class LineCrasher:
    """Raise SimCrash at the n-th `line` event inside fuzzylite code (frames of Settings.context excluded)."""

    def __init__(self, n: int) -> None:
        self.n = n
        self.count = 0
        self.fired = False

    def _local(self, frame, event, arg):  # noqa: ARG002
        if event == "line":
            self.count += 1
            if self.count == self.n:
                self.fired = True
                sys.settrace(None)
                raise SimCrash("injected:line")
        return self._local

    def _global(self, frame, event, arg):  # noqa: ARG002
        code = frame.f_code
        fn = code.co_filename
        if not fn.startswith(env.FL_DIR):
            return None
        if code.co_name == "context" and fn.endswith("library.py"):
            return None
        return self._local

    def __enter__(self):
        sys.settrace(self._global)
        return self

    def __exit__(self, *a):
        sys.settrace(None)
        return False


class _Driven:
    """The library's context manager driven the other ways Python code drives one: through contextlib.ExitStack, or by
    calling __enter__ / __exit__ by hand (what frameworks and test fixtures do)."""

    def __init__(self, cm, how: str) -> None:
        self.cm, self.how, self.stack = cm, how, None

    def __enter__(self):
        if self.how == "exitstack":
            import contextlib
            self.stack = contextlib.ExitStack()
            self.stack.__enter__()
            return self.stack.enter_context(self.cm)
        return self.cm.__enter__()

    def __exit__(self, *exc):
        if self.how == "exitstack":
            return self.stack.__exit__(*exc)
        return self.cm.__exit__(*exc)


class Interp:
    def __init__(self, trace: dict, out: Outcome, keep_log: bool) -> None:
        self.trace = trace
        self.out = out
        self.model = dict(DEFAULT)
        self.target = trace.get("target", "global")
        if self.target == "instance":
            # a second Settings object with its own (non-default) values: the context must restore *its* previous values
            init = trace.get("init", {})
            self.model.update(init)
            try:
                self.S = fl.Settings(**{k: realize(k, v) for k, v in self.model.items()})
            except Exception as e:  # a (hypothetical) validating constructor refuses the values: nothing to test here
                out.stats.hit("outcomes.settings_constructor_rejected_" + type(e).__name__)
                self.S = fl.Settings()
                self.model = dict(DEFAULT)
                self.S._factory_manager = pool("F0")
            out.stats.hit("probes.own_settings_instance")
        else:
            self.S = fl.settings
            if trace.get("lazy_fm"):
                # a fresh interpreter: the default factory manager does not exist yet (created lazily on first use)
                self.S._factory_manager = None
                self.model["factory_manager"] = "NONE"
                out.stats.hit("probes.factory_manager_not_yet_created")
        self.k = 0  # dynamic statement counter
        self.try_depth = 0
        self.ctx_depth = 0
        self.inject = trace.get("inject")
        self.dig = Digest()
        self.log = [] if keep_log else None
        self.positions: list[int] = []  # try depth at each dynamic position (for enumeration)
        self.sig: list[str] = []
        ts_engine()
        self.persistent_exporter = fl.FldExporter()  # created outside every context of the program
        self.persistent_py = fl.PythonExporter(formatted=False)
        self.persistent_fll = fl.FllExporter()
        self.persistent_imp = fl.FllImporter()
        self.late_exporter = None

    # ---- logging / oracles -------------------------------------------------
    def emit(self, line: str) -> None:
        self.dig.add(line)
        if self.log is not None:
            self.log.append(line)

    def fail(self, oracle: str, **details) -> None:
        if self.out.violation is None:
            self.out.violation = Violation(oracle, self.k, **details)
        raise _Abort()

    @staticmethod
    def _setting(obj, key: str):
        """The value of a setting as a user reads it (attribute access, however the tree under test stores it); the factory
        manager through its private slot when there is one, because the public property creates the default lazily."""
        if key == "factory_manager":
            a = attrs(obj)
            if "_factory_manager" in a:
                return a["_factory_manager"]
        return getattr(obj, key)

    def check(self, where: str) -> None:
        if self.target == "instance":
            g = fl.settings
            if any(self._setting(g, k2) is not v2 and self._setting(g, k2) != v2 for k2, v2 in env.DEFAULTS.items()) \
                    or self._setting(g, "factory_manager") is not env.default_factory_manager():
                self.fail("settings_mismatch", where=where, key="<global settings changed by a context on another Settings object>")
        for key in KEYS:
            try:
                real = self._setting(self.S, key)
            except AttributeError:
                self.fail("settings_mismatch", where=where, key=key, found="<the setting cannot be read any more>")
            if key == "factory_manager" and self.model[key] == "NONE":
                # not created yet, or created lazily meanwhile: anything but one of the managers a context installed
                if real is not None and any(real is pool(c) for c in ("F1", "F2")):
                    self.fail("settings_mismatch", where=where, key=key, expected="the lazily created default manager (or none yet)",
                              found=describe(key, real), ctx_depth=self.ctx_depth)
                continue
            want = realize(key, self.model[key])
            same = (real is want) if key in ("float_type", "logger", "factory_manager") or isinstance(want, np.ndarray) or isinstance(real, np.ndarray) else (
                type(real) is type(want) and real == want)
            if not same:
                self.fail("settings_mismatch", where=where, key=key, expected=repr(self.model[key]),
                          found=describe(key, real), ctx_depth=self.ctx_depth)

    # ---- statements --------------------------------------------------------
    def block(self, stmts: list) -> str | None:
        for s in stmts:
            sig = self.stmt(s)
            if sig:
                return sig
        return None

    def maybe_inject(self) -> None:
        inj = self.inject
        if inj and inj["at"] == self.k:
            self.inject = None
            e = make_exc(inj["exc"], f"at{self.k}")
            e._levels = inj["levels"]  # type: ignore[attr-defined]
            self.out.stats.hit("faults.inject_" + inj["exc"])
            self.emit(f"{self.k} INJECT {inj['exc']} levels={inj['levels']}")
            self.k += 1
            self.positions.append(self.try_depth)
            raise e

    def stmt(self, s: dict) -> str | None:
        self.maybe_inject()
        k = self.k
        self.k += 1
        self.positions.append(self.try_depth)
        self.out.stats.hit("ops")
        kind = s["k"]
        self.sig.append(kind[0])
        sig = None
        if kind == "ctx":
            sig = self.do_ctx(k, s)
        elif kind == "assign":
            key, code = s["key"], s["v"]
            try:
                setattr(self.S, key, realize(key, code))
                self.model[key] = code
                self.emit(f"{k} ASSIGN {key}={code!r}")
            except Exception as e:  # a (hypothetical) validating setter may refuse the value: then nothing changed
                self.out.stats.hit("outcomes.assignment_rejected_" + type(e).__name__)
                self.emit(f"{k} ASSIGN {key}={code!r} rejected {type(e).__name__}")
            if self.ctx_depth:
                self.out.stats.hit("probes.assign_inside_context")
        elif kind == "obs":
            self.do_obs(k, s)
        elif kind == "raise":
            e = make_exc(s["exc"], f"stmt{k}")
            e._levels = s.get("levels", 0)  # type: ignore[attr-defined]
            self.out.stats.hit("faults.raise_" + s["exc"])
            self.emit(f"{k} RAISE {s['exc']} levels={s.get('levels', 0)}")
            if self.ctx_depth:
                self.out.stats.hit("probes.raise_inside_context")
            raise e
        elif kind == "try":
            self.emit(f"{k} TRY")
            self.try_depth += 1
            try:
                try:
                    sig = self.block(s["body"])
                finally:
                    self.try_depth -= 1
            except SIM_EXC as e:
                if not getattr(e, "_sim_injected", False):
                    raise
                if getattr(e, "_levels", 0) > 0:
                    e._levels -= 1  # type: ignore[attr-defined]
                    self.out.stats.hit("probes.exception_passed_a_try_level")
                    raise
                self.emit(f"{k} CAUGHT {type(e).__name__}")
                self.out.stats.hit("outcomes.caught")
                if not isinstance(e, Exception):
                    self.out.stats.hit("probes.base_exception_exit")
        elif kind == "handler":
            # the body runs while another exception is being handled (sys.exc_info() is set)
            self.emit(f"{k} HANDLER")
            self.out.stats.hit("probes.context_inside_exception_handler")
            try:
                raise KeyError("outer")
            except KeyError:
                sig = self.block(s["body"])
        elif kind == "finally":
            # `fin` runs in a finally block, i.e. possibly while an exception of `body` propagates
            self.emit(f"{k} FINALLY")
            try:
                sig = self.block(s["body"])
            finally:
                if sys.exc_info()[0] is not None:
                    self.out.stats.hit("probes.context_inside_finally_while_exception_propagates")
                sig2 = self.block(s["fin"])
            sig = sig or sig2
        elif kind == "decorated":
            sig = self.do_decorated(k, s)
        elif kind == "func":
            self.emit(f"{k} FUNC")
            sig = self.block(s["body"])
            if sig == "ret":
                sig = None
        elif kind == "loop":
            self.emit(f"{k} LOOP")
            for _ in range(s.get("n", 2)):
                sig = self.block(s["body"])
                if sig == "brk":
                    sig = None
                    break
                if sig == "cont":
                    sig = None
                    continue
                if sig:
                    break
        elif kind == "overlap":
            self.do_overlap(k, s)
        elif kind in ("ret", "brk", "cont"):
            self.emit(f"{k} {kind.upper()}")
            if self.ctx_depth:
                self.out.stats.hit("probes.early_exit_return_break_continue")
            return kind
        else:
            raise AssertionError(kind)
        self.check(f"after stmt {k} {kind}")
        return sig

    def do_overlap(self, k: int, s: dict) -> None:
        """Two contexts over *disjoint* settings that overlap instead of nesting (entered A, B; left A, B - what a suspended
        generator or hand-driven __enter__/__exit__ produce): each setting has its previous value again when *its* context is
        left. Observations only in between; no exception is involved."""
        st = self.out.stats
        st.hit("probes.overlapping_contexts_over_disjoint_settings")
        a, b = s["a"], s["b"]
        self.emit(f"{k} OVERLAP a={sorted(a)} b={sorted(b)}")
        active: list = []  # (context manager, frame) still to be left
        try:
            cm_a = self.S.context(**{key: realize(key, code) for key, code in a.items()})
            cm_b = self.S.context(**{key: realize(key, code) for key, code in b.items()})
            frame_a = {key: self.model[key] for key in a}
            cm_a.__enter__()
            active.append((cm_a, frame_a))
            self.model.update(a)
            self.ctx_depth += 1
            self.check(f"overlap {k}: entered A")
            frame_b = {key: self.model[key] for key in b}
            cm_b.__enter__()
            active.append((cm_b, frame_b))
            self.model.update(b)
            self.check(f"overlap {k}: entered B")
            self.block(s["body1"])
            active.remove((cm_a, frame_a))
            cm_a.__exit__(None, None, None)
            self.model.update(frame_a)
            self.check(f"overlap {k}: left A while B is still active")
            self.block(s["body2"])
            active.remove((cm_b, frame_b))
            cm_b.__exit__(None, None, None)
            self.model.update(frame_b)
            self.ctx_depth -= 1
        except _Abort:
            raise
        except SIM_EXC as e:
            if not getattr(e, "_sim_injected", False):
                # not the simulator's exception: the context machinery itself raised (judged as such, like in do_ctx)
                self.ctx_depth = max(0, self.ctx_depth - 1)
                for cm, frame in reversed(active):
                    try:
                        cm.__exit__(None, None, None)
                    except Exception:  # noqa: BLE001
                        pass
                    self.model.update(frame)
                self._machinery_raised(k, e)
            # an exception travels through: whoever drives contexts by hand leaves the ones still active, innermost first
            self.ctx_depth = max(0, self.ctx_depth - 1)
            for cm, frame in reversed(active):
                cm.__exit__(type(e), e, e.__traceback__)
                self.model.update(frame)
            self.check(f"overlap {k}: left by {type(e).__name__}")
            raise
        except Exception as e:  # noqa: BLE001 - the context machinery refused (e.g. a validating setter): judged as usual
            self.ctx_depth = max(0, self.ctx_depth - 1)
            self._machinery_raised(k, e)

    def do_ctx(self, k: int, s: dict) -> str | None:
        kw = s["kw"]
        real = {key: realize(key, code) for key, code in kw.items()}
        frame = {key: self.model[key] for key in kw}
        self.emit(f"{k} CTX " + ",".join(f"{a}={kw[a]!r}" for a in sorted(kw)))
        self.sig.append("{" + "".join(sorted(a[0] + a[-1] for a in kw)) + "}")
        st = self.out.stats
        st.hit("outcomes.context_entered")
        if any((not isinstance(v, str) and v == 0) or v == "" for v in kw.values()):
            st.hit("probes.falsy_value_set")
        if self.ctx_depth >= 3:
            st.hit("probes.depth4_reached")
        if any(key in f for f in self._frames for key in kw):
            st.hit("probes.same_key_in_nested_contexts")
        my_frame = set(kw)
        self._frames.append(my_frame)
        entered = False
        sig = None
        try:
            try:
                if s.get("explicit_none"):
                    # callers that forward a fixed argument list pass None for the settings they do not mean to name
                    st.hit("probes.unnamed_settings_passed_as_none")
                    cm = self.S.context(**{**{key: None for key in KEYS}, **real})
                else:
                    cm = self.S.context(**real)
                if s.get("pre"):
                    # the context object is created now and entered later (contexts prepared up front, ExitStack):
                    # "previous value" means the value at *entry*
                    st.hit("probes.context_created_before_it_is_entered")
                    frame_sig = self.block(s["pre"])
                    if frame_sig:
                        return frame_sig
                    frame = {key: self.model[key] for key in kw}
                if s.get("how"):
                    st.hit("probes.context_entered_through_" + s["how"])
                    cm = _Driven(cm, s["how"])
                with cm:
                    entered = True
                    for key, code in kw.items():
                        self.model[key] = code
                    self.ctx_depth += 1
                    try:
                        self.check(f"entered ctx {k}")
                        sig = self.block(s["body"])
                        if sig:
                            return sig  # a real `return` from inside the with block
                    finally:
                        self.ctx_depth -= 1
            finally:
                if self._frames and self._frames[-1] is my_frame:
                    self._frames.pop()
                # the model leaves the context by whatever path Python left it
                if entered:
                    for key in kw:
                        self.model[key] = frame[key]
        except _Abort:
            raise
        except SIM_EXC as e:
            if not getattr(e, "_sim_injected", False):
                self._machinery_raised(k, e)
            st.hit("outcomes.context_left_by_exception")
            self.emit(f"{k} CTX-EXIT exc={type(e).__name__}")
            self.check(f"left ctx {k} by {type(e).__name__}")
            raise
        except BaseException as e:  # noqa: BLE001 - anything non-injected escaping the context machinery
            if not isinstance(e, Exception):
                raise
            self._machinery_raised(k, e)
        st.hit("outcomes.context_left_normally")
        self.emit(f"{k} CTX-EXIT ok")
        return sig

    _frames: list

    def do_decorated(self, k: int, s: dict) -> str | None:
        """The context used as a decorator (contextlib.ContextDecorator): one context object, created once, wraps a
        function; every call enters and leaves the context afresh, so "previous value" is the value at each call."""
        kw = s["kw"]
        real = {key: realize(key, code) for key, code in kw.items()}
        st = self.out.stats
        st.hit("probes.context_used_as_decorator")
        self.emit(f"{k} DECORATED x{s.get('calls', 2)} " + ",".join(f"{a}={kw[a]!r}" for a in sorted(kw)))
        self.sig.append("@{" + "".join(sorted(a[0] + a[-1] for a in kw)) + "}")
        state = {"entered": False, "depth": 0}

        def fn():
            state["entered"] = True
            for key, code in kw.items():
                self.model[key] = code
            self.ctx_depth += 1
            try:
                self.check(f"inside decorated call {k}")
                if s.get("recursive") and state["depth"] < 2:
                    # the decorated function calls itself while its context is active (every level enters and leaves afresh)
                    st.hit("probes.decorated_function_calls_itself")
                    inner = {key: self.model[key] for key in kw}
                    state["depth"] += 1
                    try:
                        try:
                            decorated()
                        finally:
                            state["depth"] -= 1
                            for key in kw:
                                self.model[key] = inner[key]
                    except SIM_EXC as e:
                        if not getattr(e, "_sim_injected", False):
                            self._machinery_raised(k, e)
                        raise
                    self.check(f"after recursive decorated call {k}")
                if state["depth"] > 0:
                    return None
                return self.block(s["body"])
            finally:
                self.ctx_depth -= 1
        try:
            decorated = self.S.context(**real)(fn)
        except Exception as e:
            st.hit("outcomes.context_not_usable_as_decorator_" + type(e).__name__)
            return None
        sig = None
        for _ in range(s.get("calls", 2)):
            frame = {key: self.model[key] for key in kw}
            state["entered"] = False
            st.hit("outcomes.context_entered")
            try:
                try:
                    sig = decorated()
                finally:
                    if state["entered"]:
                        for key in kw:
                            self.model[key] = frame[key]
            except _Abort:
                raise
            except SIM_EXC as e:
                if not getattr(e, "_sim_injected", False):
                    self._machinery_raised(k, e)
                st.hit("outcomes.context_left_by_exception")
                self.check(f"left decorated call {k} by {type(e).__name__}")
                raise
            except BaseException as e:  # noqa: BLE001
                if not isinstance(e, Exception):
                    raise
                self._machinery_raised(k, e)
            st.hit("outcomes.context_left_normally")
            self.check(f"after decorated call {k}")
            if sig == "ret":
                sig = None
            elif sig:
                break
        return sig

    def _machinery_raised(self, k: int, e: BaseException) -> None:
        """A non-injected exception came out of the context manager itself. That alone is not C20's business;
        what C20 says is that the settings are restored - judge that, then stop the run (the model cannot follow)."""
        self.out.stats.hit("outcomes.context_machinery_raised_" + type(e).__name__)
        self.emit(f"{k} CTX machinery raised {type(e).__name__}")
        self.check(f"context {k} raised {type(e).__name__} by itself")
        raise _Abort()

    def do_obs(self, k: int, s: dict) -> None:
        what = s["what"]
        if self.target == "instance":
            what = "vars"  # library helpers read the global settings object, not this one
        m = self.model
        st = self.out.stats
        crash = s.get("crash_line")
        try:
            if crash:
                with LineCrasher(crash) as lc:
                    try:
                        got, want = self.observe(what, m)
                    finally:
                        if lc.fired:
                            st.hit("faults.line_crash")
            else:
                got, want = self.observe(what, m)
        except _Abort:
            raise
        except SimCrash as e:
            e._sim_injected = True  # type: ignore[attr-defined]
            e._levels = s.get("levels", 0)  # type: ignore[attr-defined]
            self.emit(f"{k} OBS {what} crashed at line {crash}")
            raise
        except BaseException as e:  # noqa: BLE001
            if not isinstance(e, Exception):
                raise
            # a helper that raises cannot be observed; that it raises is not C20's business
            self.out.stats.hit("outcomes.helper_raised_" + type(e).__name__)
            self.emit(f"{k} OBS {what} raised {type(e).__name__}")
            return
        self.emit(f"{k} OBS {what} -> {got!r}")
        if self.ctx_depth:
            st.hit("probes.observation_inside_context")
        if got != want:
            self.fail("helper_sees_wrong_setting", what=what, got=repr(got)[:200], expected=repr(want)[:200],
                      ctx_depth=self.ctx_depth)

    def observe(self, what: str, m: dict):
        if what == "str":
            x = 1.0 / 3.0
            return (fl.Op.str(x), fl.Op.str(np.float64(2.0 / 3.0)), fl.Op.str(np.float32(0.5)), fl.Op.str(np.float16(0.25)),
                    fl.Op.str(np.array([0.5], dtype=np.float32))), (
                f"{x:.{m['decimals']}f}", f"{2.0 / 3.0:.{m['decimals']}f}", f"{0.5:.{m['decimals']}f}", f"{0.25:.{m['decimals']}f}",
                f"{0.5:.{m['decimals']}f}")
        if what == "close":
            got, want = [], []
            for d in (1e-10, 1e-4, 0.05, 0.4):
                b = 1.0 + d
                got.append(bool(fl.Op.is_close(1.0, b)))
                want.append(abs(1.0 - b) <= m["atol"] + m["rtol"] * abs(b))
            return got, want
        if what == "dtype":
            return str(fl.scalar(1).dtype), str(np.dtype(FLOAT_TYPES[m["float_type"]]))
        if what == "alias":
            a = m["alias"]
            prefix = "fuzzylite.norm." if a == "" else ("" if a == "*" else a + ".")
            imp = "import fuzzylite" if a == "" else ("from fuzzylite import *" if a == "*" else f"import fuzzylite as {a}")
            return (repr(fl.Minimum()), fl.library.representation.import_statement()), (prefix + "Minimum()", imp)
        if what == "fm":
            if m["factory_manager"] == "NONE":
                return any(fl.settings.factory_manager is pool(c) for c in ("F1", "F2")), False
            return fl.settings.factory_manager is pool(m["factory_manager"]), True
        if what == "logger":
            return fl.settings.logger is pool(m["logger"]), True
        if what == "rule":
            try:
                fl.Rule.create("if a is quite x then b is y", tiny_engine())
                ok = True
            except SyntaxError:
                ok = False
            self.out.stats.hit("probes.rule_loaded_through_swapped_factory" if ok else "outcomes.rule_rejected_by_factory")
            return ok, m["factory_manager"] == "F1"
        if what == "fll":
            d = m["decimals"]
            got = fl.FllExporter().to_string(fl.Triangle("t", 1.0 / 3.0, 2.0 / 3.0, 1.0))
            # the height (1.0) is printed unless Op.is_close(height, 1.0) under the *current* tolerances
            unit = "" if abs(1.0 - 1.0) <= m["atol"] + m["rtol"] * 1.0 else f" {1.0:.{d}f}"
            return got, f"term: t Triangle {1 / 3:.{d}f} {2 / 3:.{d}f} {1.0:.{d}f}" + unit
        if what == "vars":
            return True, True
        a = m["alias"]
        lib = "fuzzylite.library." if a == "" else ("" if a == "*" else a + ".")
        d = m["decimals"]
        close = lambda x, y: abs(x - y) <= m["atol"] + m["rtol"] * abs(y)  # noqa: E731
        if what == "arr":
            return fl.repr(np.array([1.0, 2.0])), f"{lib}array([1.0, 2.0])"
        if what in ("fld", "fld_late", "mkexp"):
            import io
            if what == "mkexp":  # create a long-lived helper object under the settings of *this* moment
                self.late_exporter = fl.FldExporter()
                return True, True
            exp = self.persistent_exporter if what == "fld" else (self.late_exporter or fl.FldExporter())
            if what == "fld_late" and self.late_exporter is not None:
                self.out.stats.hit("probes.helper_created_under_other_settings_used_now")
            got = exp.to_string_from_reader(ts_engine(), io.StringIO("0.5\n"))
            return got, f"a b\n{0.5:.{d}f} {0.25:.{d}f}\n"
        if what == "ruletext":
            w = 0.9995
            r = fl.Rule.create(f"if a is x then b is y with {w}")
            return r.text, "if a is x then b is y" + ("" if close(w, 1.0) else f" with {w:.{d}f}")  # np.isclose(a, b): |a-b| <= atol + rtol*|b|
        if what == "termparams":
            h = 0.9995
            t = fl.Triangle("t", 0.0, 0.5, 1.0, height=h)
            return str(t), f"term: t Triangle {0.0:.{d}f} {0.5:.{d}f} {1.0:.{d}f}" + ("" if close(h, 1.0) else f" {h:.{d}f}")
        if what == "pyexp":
            cls = "fuzzylite.term." if a == "" else ("" if a == "*" else a + ".")
            t = fl.Triangle("t", 0.0, 0.5, 1.0)
            return (self.persistent_py.to_string(t).strip(), fl.PythonExporter(formatted=False).to_string(t).strip()), (
                f"{cls}Triangle('t', 0.0, 0.5, 1.0" + ("" if close(1.0, 1.0) else ", 1.0") + ")",) * 2  # height shown unless is_close(height, 1)
        if what == "fll_p":
            return self.persistent_fll.to_string(fl.Triangle("t", 1.0 / 3.0, 2.0 / 3.0, 1.0)), \
                f"term: t Triangle {1 / 3:.{d}f} {2 / 3:.{d}f} {1.0:.{d}f}" + ("" if close(1.0, 1.0) else f" {1.0:.{d}f}")
        if what == "imp":
            try:
                self.persistent_imp.term("term: t Tri2 0.0 0.5 1.0")
                ok = True
            except ValueError:
                ok = False
            return ok, m["factory_manager"] == "F1"
        if what == "func":
            try:
                ok = float(fl.Function.create("f", "twice(x)").membership(0.25)) == 0.5
            except SyntaxError:
                ok = False
            return ok, m["factory_manager"] == "F1"
        if what == "func_op":
            # an operator that exists only in F1, written without spaces: the tokeniser must use the *current* operator set
            try:
                ok = float(fl.Function.create("g", "7//2").membership(0.0)) == 3.0
            except SyntaxError:
                ok = False
            return ok, m["factory_manager"] == "F1"
        if what == "dtype_arr":
            ft = np.dtype(FLOAT_TYPES[m["float_type"]])
            return (str(fl.scalar(np.array([1.0, 2.0])).dtype), str(fl.scalar(np.array([1.0], dtype=np.float32)).dtype),
                    str(fl.scalar([1.0, 2.0]).dtype)), (str(ft),) * 3
        if what == "str3d":
            x3 = np.full((1, 1, 2), 1.0 / 3.0)  # arrays of 3 or more dimensions are printed by numpy with `decimals` digits
            return fl.Op.str(x3), np.array2string(x3, precision=d, floatmode="fixed")
        if what == "func_mod":
            try:
                got = float(fl.Function.create("m", "(0 - 7) % 4").membership(0.0))
            except SyntaxError:
                got = None
            return got, (-3.0 if m["factory_manager"] == "F2" else 1.0)
        if what == "str_forms":
            x = 1.0 / 3.0
            f = f"{x:.{d}f}"
            return (fl.Op.str(np.array(x)), fl.Op.str([x, x]), fl.Op.str(np.array([x, x]), delimiter=","),
                    fl.Op.str(np.array([[x, x], [x, x]]))), (f, f"{f} {f}", f"{f},{f}", f"{f} {f}\n{f} {f}")
        if what == "debug":
            return bool(fl.settings.debugging), m["logger"] == "L3"
        if what == "logrec":
            before = _L3_HANDLER.count
            fl.Rule.create("if a is x then b is y", tiny_engine())
            fl.Function.create("f", "1 + 2")
            return _L3_HANDLER.count > before, m["logger"] == "L3"
        if what == "conseq_hedge":
            try:
                fl.Rule.create("if a is x then b is quite y", tiny_engine())
                ok = True
            except SyntaxError:
                ok = False
            return ok, m["factory_manager"] == "F1"
        if what == "imp_ops":
            got = []
            imp = self.persistent_imp
            for fn, name in ((imp.tnorm, "Min2"), (imp.snorm, "Max2"), (imp.activation, "Gen2"), (imp.defuzzifier, "Cen2")):
                try:
                    got.append(type(fn(name)).__name__ == name)
                except ValueError:
                    got.append(False)
            return got, [m["factory_manager"] == "F1"] * 4
        if what == "configure":
            e = fl.Engine("c", output_variables=[fl.OutputVariable("o")], rule_blocks=[fl.RuleBlock("r")])
            try:
                e.configure(conjunction="Min2", disjunction="Max2", implication="Min2", aggregation="Max2",
                            defuzzifier="Cen2", activation="Gen2")
                ok = type(e.rule_blocks[0].conjunction).__name__ == "Min2" and type(e.output_variables[0].defuzzifier).__name__ == "Cen2"
            except ValueError:
                ok = False
            return ok, m["factory_manager"] == "F1"
        if what == "const_dtype":
            ft = str(np.dtype(FLOAT_TYPES[m["float_type"]]))
            return str(fl.Constant("k", 0.25).membership(np.array([1.0, 2.0])).dtype), ft
        if what == "cmp":
            ft = str(np.dtype(FLOAT_TYPES[m["float_type"]]))
            # eq/neq/ge/le are exact whatever the tolerances in force; gt/lt answer in the float type in force
            b = 1.0 + 1e-4
            return (bool(fl.Op.eq(1.0, b)), bool(fl.Op.neq(1.0, b)), bool(fl.Op.ge(1.0, b)), bool(fl.Op.le(b, 1.0)),
                    str(fl.Op.gt(2.0, 1.0).dtype), str(fl.Op.lt(np.array([1.0, 3.0]), 2.0).dtype)), (False, True, False, False, ft, ft)
        if what == "fuzzify":
            v = tiny_engine().input_variables[0]
            return str(v.fuzzify(0.25)), f"{0.5:.{d}f}/x"
        if what == "fll_engine":
            eng = fl.Engine("e", input_variables=[fl.InputVariable("a", minimum=0.0, maximum=1.0, terms=[fl.Triangle("x", 0.0, 0.5, 1.0)])],
                            output_variables=[fl.OutputVariable("b", terms=[fl.Constant("k", 0.25)])])
            got = fl.FllExporter().to_string(eng)
            want_lines = [f"  range: {0.0:.{d}f} {1.0:.{d}f}", f"  term: x Triangle {0.0:.{d}f} {0.5:.{d}f} {1.0:.{d}f}"
                          + ("" if close(1.0, 1.0) else f" {1.0:.{d}f}"), f"  term: k Constant {0.25:.{d}f}" + ("" if close(1.0, 1.0) else f" {1.0:.{d}f}"), "  default: nan"]
            return [ln in got.split("\n") for ln in want_lines], [True] * 4
        if what == "tofloat":
            ft = FLOAT_TYPES[m["float_type"]]
            return type(fl.to_float(1)).__name__, ft.__name__
        if what == "xy":
            return str(fl.Discrete.to_xy([0.0, 1.0], [0.5, 1.0]).dtype), str(np.dtype(FLOAT_TYPES[m["float_type"]]))
        raise AssertionError(what)


class C20(Sim):
    pid = "C20"
    level = "fault_enumeration"
    rule = ("A case is one nested-context program (statements: ctx over a subset of the 7 settings, direct assign, "
            "observe helper, raise, try, func/return, loop/break/continue; depth <= 4) executed with the real "
            "Settings.context and compared after every statement with a stack-of-frames model; in the enumeration "
            "arm every dynamic statement position x 8 exception kinds x every enclosing catch level of each "
            "raise-free base program is a separate case. Non-trivial = at least one context entered. Distinct = "
            "distinct (statement-kind sequence with per-context key subsets, injected position, kind, level).")
    assumptions = [
        "single-threaded use; contexts are left in nested order (the property says 'nesting'); in addition two contexts over *disjoint* settings may overlap (entered A, B; left A, B), where 'the previous value when its context is left' is still unambiguous",
        "asynchronous exceptions inside Settings.context's own enter/exit code are out of scope",
    ]
    real_vs_stub = {
        "Settings.context, Settings attributes, Op.str, Op.is_close, scalar, Representation, FllExporter, Rule.create, factories": "real",
        "loggers / factory managers used as values": "real objects (two extra Logger, two extra FactoryManager instances)",
        "exceptions": "injected by the simulator (8 kinds) or by sys.settrace line crash inside library helpers",
    }
    tiers = {"quick": (6000, 60.0), "thorough": (600000, 1500.0)}
    chunk = 25
    expected_probes = [
        "depth4_reached", "same_key_in_nested_contexts", "assign_inside_context", "falsy_value_set",
        "base_exception_exit", "early_exit_return_break_continue", "exception_passed_a_try_level",
        "rule_loaded_through_swapped_factory", "raise_inside_context", "observation_inside_context",
        "assign_named_key_rolled_back", "assign_unnamed_key_persists", "helper_created_under_other_settings_used_now",
        "context_inside_exception_handler", "context_inside_finally_while_exception_propagates", "own_settings_instance",
        "factory_manager_not_yet_created", "context_created_before_it_is_entered", "context_used_as_decorator", "decorated_function_calls_itself",
        "warnings_escalated_to_errors", "context_entered_through_exitstack", "context_entered_through_manual", "overlapping_contexts_over_disjoint_settings", "unnamed_settings_passed_as_none",
    ]

    # ---- generation --------------------------------------------------------
    def gen_block(self, rng, depth: int, budget: list, in_func: bool, in_loop: bool, raises: bool, named: set) -> list:
        out = []
        n = rng.randint(1, 4)
        for _ in range(n):
            if budget[0] <= 0:
                break
            budget[0] -= 1
            r = rng.random()
            if r < 0.012 and depth < self.max_depth and not raises:
                ka = rng.sample(KEYS, rng.randint(1, 3))
                kb = rng.sample([x for x in KEYS if x not in ka], rng.randint(1, 3))
                out.append({"k": "overlap", "a": {key: rng.choice(VALUES[key]) for key in ka}, "b": {key: rng.choice(VALUES[key]) for key in kb},
                            "body1": [{"k": "obs", "what": rng.choice(OBS)} for _ in range(rng.randint(0, 2))],
                            "body2": [{"k": "obs", "what": rng.choice(OBS)} for _ in range(rng.randint(0, 2))]})
                continue
            if r < 0.34 and depth < self.max_depth:
                nk = rng.choice([1, 1, 2, 2, 3, 7]) if rng.random() < 0.9 else rng.randint(1, 7)
                keys = rng.sample(KEYS, min(nk, 7))
                kw = {key: rng.choice(VALUES[key]) for key in keys}
                node = {"k": "ctx", "kw": kw,
                        "body": self.gen_block(rng, depth + 1, budget, in_func, in_loop, raises, named | set(keys))}
                rr = rng.random()
                if rr < 0.10:
                    node["pre"] = [{"k": "assign", "key": rng.choice(keys), "v": rng.choice(VALUES[rng.choice(keys)])}
                                   if False else self._pre_assign(rng, keys) for _ in range(rng.randint(1, 2))]
                elif rr < 0.44 and rr >= 0.32:
                    node["explicit_none"] = True
                if rr < 0.10:
                    pass
                elif rr < 0.27:
                    # the same context entered through contextlib.ExitStack, or by calling __enter__ / __exit__ by hand
                    node["how"] = "exitstack" if rr < 0.21 else "manual"
                elif rr < 0.32:
                    node = {"k": "decorated", "kw": kw, "calls": 2, "recursive": rng.random() < 0.4,
                            "body": self.gen_block(rng, depth + 1, budget, True, False, raises, named | set(keys))}
                out.append(node)
            elif r < 0.50:
                # bias: half of the assignments target a key named by an enclosing context
                if named and rng.random() < 0.5:
                    key = rng.choice(sorted(named))
                else:
                    key = rng.choice(KEYS)
                out.append({"k": "assign", "key": key, "v": rng.choice(VALUES[key])})
            elif r < 0.72:
                out.append({"k": "obs", "what": rng.choice(OBS)})
            elif r < 0.79:
                out.append({"k": "try", "body": self.gen_block(rng, depth, budget, in_func, in_loop, raises, named)})
            elif r < 0.825:
                out.append({"k": "handler", "body": self.gen_block(rng, depth, budget, in_func, in_loop, raises, named)})
            elif r < 0.85:
                out.append({"k": "finally", "body": self.gen_block(rng, depth, budget, in_func, in_loop, raises, named),
                            "fin": self.gen_block(rng, depth, budget, False, False, False, named)})
            elif r < 0.875 and not in_func:
                out.append({"k": "func", "body": self.gen_block(rng, depth, budget, True, False, raises, named)})
            elif r < 0.90 and not in_loop:
                out.append({"k": "loop", "n": 2, "body": self.gen_block(rng, depth, budget, in_func, True, raises, named)})
            elif r < 0.93 and (in_func or in_loop) and depth > 0:
                ch = (["ret"] if in_func else []) + (["brk", "cont"] if in_loop else [])
                out.append({"k": rng.choice(ch)})
            elif raises and r < 0.98:
                out.append({"k": "raise", "exc": rng.choice(EXC_NAMES), "levels": rng.choice([0, 0, 0, 1, 2, 9])})
            else:
                out.append({"k": "obs", "what": "vars"})
        return out

    max_depth = 4

    @staticmethod
    def _pre_assign(rng, keys) -> dict:
        key = rng.choice(keys) if rng.random() < 0.8 else rng.choice(KEYS)
        return {"k": "assign", "key": key, "v": rng.choice(VALUES[key])}

    def gen_program(self, rng, raises: bool) -> list:
        budget = [rng.randint(4, 22)]
        prog = self.gen_block(rng, 0, budget, False, False, raises, set())
        if not any(s["k"] == "ctx" for s in prog):
            key = rng.choice(KEYS)
            prog.insert(0, {"k": "ctx", "kw": {key: rng.choice(VALUES[key])},
                            "body": self.gen_block(rng, 1, [4], False, False, raises, {key})})
        return prog

    def cases(self, rng, run: int, tier: str) -> Iterator[dict]:
        # the property quantifies over nestings up to depth 4; the thorough tier goes to 6 in a quarter of the runs
        self.max_depth = 6 if (tier == "thorough" and run % 8 >= 6) else 4
        arm = "enumerate" if run % 4 == 0 else ("linecrash" if run % 4 == 1 else "random")
        def flavour() -> dict:
            r = rng.random()
            if r < 0.12:
                return {"target": "instance", "init": {k: rng.choice(VALUES[k]) for k in rng.sample(KEYS, rng.randint(1, 7))}}
            if r < 0.27:
                return {"lazy_fm": True}
            if r < 0.37:
                return {"warnings_as_errors": True}
            return {}
        if arm == "random":
            for _ in range(8):
                yield dict({"arm": arm, "ops": self.gen_program(rng, raises=True)}, **flavour())
            return
        prog = self.gen_program(rng, raises=False)
        base = dict({"arm": arm, "ops": prog}, **flavour())
        fl_extra = {k: base[k] for k in ("target", "init", "lazy_fm", "warnings_as_errors") if k in base}
        yield base
        env.reset_settings()
        probe = Outcome()
        it = Interp(base, probe, False)
        it._frames = []
        try:
            it.block(prog)
        except BaseException:  # noqa: BLE001 - base result is judged by the driver, not here
            env.reset_settings()
            return
        env.reset_settings()
        if arm == "enumerate":
            kinds = EXC_NAMES
            for pos, td in enumerate(it.positions):
                for kind in kinds:
                    for lv in range(td + 1):
                        yield dict({"arm": arm, "ops": prog, "inject": {"at": pos, "exc": kind, "levels": lv}}, **fl_extra)
        else:
            # line-level crash inside library helpers called from a context body
            import copy as _copy
            paths = []

            def walk(stmts, path):
                for i, s in enumerate(stmts):
                    if s["k"] == "obs" and s["what"] in ("str", "close", "alias", "fll", "rule", "dtype", "arr", "fld", "ruletext", "termparams"):
                        paths.append(path + [i])
                    if "body" in s:
                        walk(s["body"], path + [i])  # (statements inside `fin` blocks are not line-crashed)
            walk(prog, [])
            rng2 = rng
            for p in paths[:6]:
                for line in sorted({1, 2, 3, rng2.randint(1, 12), rng2.randint(1, 60), rng2.randint(1, 200)}):
                    q = _copy.deepcopy(prog)
                    node = q
                    for j, idx in enumerate(p):
                        node = node[idx] if j == 0 else node["body"][idx]
                    node["crash_line"] = line
                    node["levels"] = rng2.choice([0, 0, 1, 9])
                    yield dict({"arm": arm, "ops": q}, **fl_extra)

    # ---- execution ---------------------------------------------------------
    def execute(self, trace: dict, keep_log: bool = False) -> Outcome:
        out = Outcome()
        env.reset_settings()
        it = Interp(trace, out, keep_log)
        it._frames = []
        st = out.stats
        st.hit("arms." + trace.get("arm", "random"))
        import warnings as _warnings
        wctx = _warnings.catch_warnings()
        wctx.__enter__()
        if trace.get("warnings_as_errors"):
            _warnings.simplefilter("error")  # the host program escalates warnings (-W error, pytest filterwarnings=error)
            st.hit("probes.warnings_escalated_to_errors")
        try:
            try:
                it.block(trace["ops"])
                st.hit("outcomes.program_completed")
            except _Abort:
                raise
            except SIM_EXC as e:
                if not getattr(e, "_sim_injected", False):
                    raise
                st.hit("outcomes.program_left_by_uncaught_exception")
                it.emit(f"TOP uncaught {type(e).__name__}")
                if not isinstance(e, Exception):
                    st.hit("probes.base_exception_exit")
            it.check("end of program")
            # persistence bookkeeping (probes only)
            self._probe_assignments(trace["ops"], st, set())
        except _Abort:
            pass
        finally:
            wctx.__exit__(None, None, None)
            sys.settrace(None)
            env.reset_settings()
        inj = trace.get("inject")
        out.signature = trace.get("target", "g")[0] + ("L" if trace.get("lazy_fm") else "") + ("W" if trace.get("warnings_as_errors") else "") + "".join(it.sig) + (
            f"|{inj['at']}:{inj['exc']}:{inj['levels']}" if inj else "")
        out.nontrivial = st.get("outcomes.context_entered", 0) > 0
        out.digest = it.dig.hex()
        out.log = it.log
        return out

    def _probe_assignments(self, stmts, st, named: set) -> None:
        for s in stmts:
            if s["k"] == "assign" and named:
                st.hit("probes.assign_named_key_rolled_back" if s["key"] in named else "probes.assign_unnamed_key_persists")
            if s["k"] in ("ctx", "decorated"):
                self._probe_assignments(s["body"], st, named | set(s["kw"]))
            elif "body" in s:
                self._probe_assignments(s["body"], st, named)
                if "fin" in s:
                    self._probe_assignments(s["fin"], st, named)

    # ---- shrinking ---------------------------------------------------------
    def shrink_candidates(self, trace: dict) -> Iterator[dict]:
        import copy as _copy

        def variants(stmts):
            for i, s in enumerate(stmts):
                yield stmts[:i] + stmts[i + 1:]
                if "fin" in s:
                    yield stmts[:i] + s["body"] + s["fin"] + stmts[i + 1:]
                    for b in variants(s["fin"]):
                        t = dict(s)
                        t["fin"] = b
                        yield stmts[:i] + [t] + stmts[i + 1:]
                if "body" in s:
                    yield stmts[:i] + s["body"] + stmts[i + 1:]  # unwrap
                    for b in variants(s["body"]):
                        t = dict(s)
                        t["body"] = b
                        yield stmts[:i] + [t] + stmts[i + 1:]
                if s["k"] == "ctx" and len(s["kw"]) > 1:
                    for key in s["kw"]:
                        t = dict(s)
                        t["kw"] = {a: b for a, b in s["kw"].items() if a != key}
                        yield stmts[:i] + [t] + stmts[i + 1:]
                if s["k"] == "raise" and s.get("levels"):
                    t = dict(s)
                    t["levels"] = 0
                    yield stmts[:i] + [t] + stmts[i + 1:]
        for ops in variants(trace["ops"]):
            cand = _copy.deepcopy(trace)
            cand["ops"] = _copy.deepcopy(ops)
            yield cand
            if trace.get("inject"):
                for d in (1, 2, 3):
                    if trace["inject"]["at"] - d >= 0:
                        c2 = _copy.deepcopy(cand)
                        c2["inject"]["at"] = trace["inject"]["at"] - d
                        yield c2


SIM = C20()
