"""C13 — processing is history-free; restart and copy give clean independent engines.

Actors: a pool of live engines (the original and copies of copies).  The scheduler chooses, per step,
the operation and the engine instance it addresses.  Every live engine has a *shadow*: a fuzzylite
engine built fresh from the JSON spec by public constructors (never by copy()/restart()) and driven in
lockstep; after restart the shadow is a fresh build of the current configuration, after copy it is a
fresh build plus a replay of the source's log.  Oracles: lockstep state equality, history-freedom
against a fresh twin given only the current inputs, idempotence, restart cleanliness, copy equality and
disjointness of object graphs, and a frame condition over every other live engine after every op.
"""
from __future__ import annotations

import copy
from typing import Iterator

import numpy as np

from simkit import engineops as EO
from simkit import env, spec as S
from simkit.canon import fdec, fenc
from simkit.core import Outcome, Sim, SimCrash, Violation
from simkit.faults import LineCrasher
from simkit.rng import Digest

fl = env.fl
MAX_LIVE = 4


class Live:
    __slots__ = ("engine", "shadow", "spec_restart", "spec_now", "log", "depth", "cached", "restarted")

    def __init__(self, engine, shadow, spec_restart, spec_now, log, depth):
        self.engine, self.shadow = engine, shadow
        self.spec_restart, self.spec_now = spec_restart, spec_now
        self.log, self.depth = log, depth
        self.cached = None
        self.restarted = False


def apply_single(engine, op: dict):
    k = op["op"]
    if k in ("inputs", "edit", "toggle"):
        # a library exception while setting inputs / editing is an outcome (compared between engine and twin),
        # not a harness error
        try:
            return _apply_plain(engine, op)
        except Exception as e:
            return "raised:" + type(e).__name__
    return _apply_plain(engine, op)


def _apply_plain(engine, op: dict):
    k = op["op"]
    if k == "inputs":
        EO.set_inputs(engine, op["rows"], op.get("setter", "vars"))
        return None
    if k == "process":
        return EO.process_with(engine, None)[0]
    if k == "abort":
        return EO.process_with(engine, op["inj"])
    if k == "edit":
        EO.apply_edit(engine, op["edit"])
        return None
    if k == "toggle":
        EO.toggle(engine, op["path"])
        return None
    raise AssertionError(k)


def replayed(spec: dict, log: list):
    S.set_gain(fdec(spec.get("gain0", fenc(1.0))))  # process-global parameter: start where the spec was, the log's edits follow
    e = S.build(spec)
    for op in log:
        apply_single(e, op)
        if op["op"] == "process" and op.get("twice"):
            apply_single(e, op)
    return e


def eligible_history_free(spec: dict) -> bool:
    return not any(o["lock_previous"] for o in spec["outputs"]) and not S.fn_reads_output(spec)


class C13(Sim):
    pid = "C13"
    level = "exploration"
    rule = ("A case is one generated engine (all 7 activation methods, Linear/Function terms holding engine references, "
            "outputs in antecedents, 1-2 rule blocks) plus an interleaving of ops {set inputs (row or batch), process "
            "(optionally twice), restart, copy (and switch), edit a parameter / operator / container in place, toggle an "
            "enabled flag, replace a term and restart, aborted process (faulty component, missing operator, wrong Linear "
            "arity, vector into a scalar-only activation, FP trap), line-level crash inside process/restart/copy followed by "
            "restart} addressed to the original or any copy. Non-trivial = at least one process() after a copy, restart or "
            "edit. Distinct = distinct (engine family, set of op-kind 3-grams with engine roles).")
    assumptions = [
        "twins/shadows are real fuzzylite engines built from the JSON spec by public constructors (oracle is independence from history, not numeric correctness)",
        "only enabled output variables are compared against the history-free twin (a disabled one legitimately keeps its value)",
        "engines with a Function term reading an output variable's value are excluded from the history-free and idempotence oracles only",
        "interleaving is at operation granularity (the library makes no thread-safety claim)",
    ]
    real_vs_stub = {"engine under test, copies, shadows, fresh twins": "real fuzzylite objects",
                    "faults": "dynamic faulty subclasses of real components, None operators, in-place arity break, np.errstate raise, sys.settrace line crash",
                    "scheduler / op generator": "simulator"}
    tiers = {"quick": (3200, 75.0), "thorough": (400000, 1800.0)}
    chunk = 10
    chunk_thorough = 2  # a thorough run index may enumerate thousands of crash lines
    expected_probes = [
        "copy_of_a_copy", "edit_copy_then_process_original", "process_other_between_inputs_and_process", "restart_after_abort",
        "toggle_process_restore_process", "linear_or_function_engine_copied", "batch_then_scalar_same_engine",
        "abort_with_rule_already_triggered", "restart_after_crash", "crash_inside_reload_rules", "history_free_checked",
        "idempotence_checked", "inplace_container_edit", "replace_term_and_restart", "copy_crashed", "shipped_example_engine", "identity_term_chain", "empty_batch", "two_engines_fed_from_the_same_arrays",
    ]

    def prepare(self) -> None:
        S.load_example_specs()

    # ---------------------------------------------------------------- generation
    def cases(self, rng, run: int, tier: str) -> Iterator[dict]:
        arm = ["clean", "clean", "faults", "crash"][run % 4]
        general_only = rng.random() < 0.5
        sp = S.gen_spec(rng, activations=S.GENERAL if general_only else S.ACTIVATIONS, fn_reads_output=rng.random() < 0.3,
                        cascade=rng.random() < 0.5, norm_functions=True, user_terms=["DomainRamp", "InputGain"])
        if rng.random() < 0.03:
            sp["flags"]["long_rules"] = True  # some edits turn a rule into a chain of 120 / 400 propositions (a machine-generated rule)
        if rng.random() < 0.5:  # the property's hard cases: make sure a Linear / Function term exists
            o = rng.choice(sp["outputs"])
            if o["family"] == "takagi":
                names_in = [v["name"] for v in sp["inputs"]]
                o["terms"][0] = S.gen_term(rng, rng.choice(["Linear", "Function"]), o["terms"][0]["name"], 0, 1, names_in, [], False)
        if rng.random() < 0.12:
            sp = S.example_spec(rng, allow_fn_reads_output=True, randomise_cascade=rng.random() < 0.5) or sp
        elif rng.random() < 0.10:
            S.make_identity_chain(rng, sp)
            if not general_only and rng.random() < 0.6:
                for b in sp["blocks"]:
                    b["activation"] = {"cls": rng.choice(["Proportional", "Proportional", "Highest", "First"])}
                    if b["activation"]["cls"] in ("Highest",):
                        b["activation"]["rules"] = 2
                    if b["activation"]["cls"] == "First":
                        b["activation"].update(rules=2, threshold=0.0)
        vector_ok = all(b["activation"] and b["activation"]["cls"] in ("General", "UserGeneral") for b in sp["blocks"])
        if arm == "crash":
            yield from self._crash_cases(rng, sp, vector_ok, tier)
            return
        n = rng.randint(6, 22 if tier == "quick" else 32)
        ops: list[dict] = []
        n_live = 1
        focus = 0
        while len(ops) < n:
            r = rng.random()
            e = focus if rng.random() < 0.65 else rng.randrange(n_live)
            if arm == "faults" and rng.random() < 0.22:
                ops.append(self._inputs(rng, sp, e, vector_ok))
                ops.append({"op": "abort", "e": e, "inj": EO.gen_injector(rng, sp, vector_ok)})
                rr = rng.random()
                if rr < 0.35:
                    ops.append({"op": "restart", "e": e})
                elif rr < 0.8:
                    ops.append({"op": "process", "e": e})
                continue
            if r < 0.22:
                ops.append(self._inputs(rng, sp, e, vector_ok))
                if n_live > 1 and rng.random() < 0.3:  # someone else processes in between
                    ops.append({"op": "process", "e": (e + 1) % n_live})
                ops.append({"op": "process", "e": e, "twice": rng.random() < 0.25})
            elif r < 0.34:
                ops.append({"op": "process", "e": e, "twice": rng.random() < 0.2})
            elif r < 0.44:
                ops.append({"op": "restart", "e": e})
            elif r < 0.56:
                sw = rng.random() < 0.6
                ops.append({"op": "copy", "e": e, "switch": sw})
                if n_live < MAX_LIVE:
                    n_live += 1
                new = n_live - 1
                if sw:
                    focus = new
                if rng.random() < 0.5:  # edit the copy, then process the original
                    ops.append({"op": "edit", "e": new, "edit": EO.gen_edit(rng, sp)})
                    ops.append(self._inputs(rng, sp, e, vector_ok))
                    ops.append({"op": "process", "e": e})
            elif r < 0.72:
                ops.append({"op": "edit", "e": e, "edit": EO.gen_edit(rng, sp)})
                if rng.random() < 0.5:
                    ops.append({"op": "process", "e": rng.randrange(n_live)})
            elif r < 0.82:
                path = EO.gen_toggle_path(rng, sp)
                ops.append({"op": "toggle", "e": e, "path": path})
                if rng.random() < 0.7:
                    ops.append({"op": "process", "e": e})
                    ops.append({"op": "toggle", "e": e, "path": path})
                    ops.append({"op": "process", "e": e})
            elif r < 0.88:
                kind = rng.choice(["in", "out"])
                vs = sp["inputs"] if kind == "in" else sp["outputs"]
                vi = rng.randrange(len(vs))
                if not vs[vi]["terms"]:
                    continue
                ti = rng.randrange(len(vs[vi]["terms"]))
                old = vs[vi]["terms"][ti]
                lo, hi = float(vs[vi]["min"]), float(vs[vi]["max"])
                lo, hi = (lo if abs(lo) != float("inf") else -10.0), (hi if abs(hi) != float("inf") else 10.0)
                names_in = [v["name"] for v in sp["inputs"]]
                new_t = S.gen_term(rng, old["cls"], old["name"], lo, hi, names_in, [], old["cls"] == "Function" and "x" in old["args"].get("formula", ""))
                if old["cls"] == "Function":
                    new_t = copy.deepcopy(old)
                ops.append({"op": "replace_term", "e": e, "var": [kind, vi], "ti": ti, "term": new_t})
                ops.append(self._inputs(rng, sp, e, vector_ok))
                ops.append({"op": "process", "e": e})
            elif arm == "faults":
                ops.append(self._inputs(rng, sp, e, vector_ok))
                ops.append({"op": "abort", "e": e, "inj": EO.gen_injector(rng, sp, vector_ok)})
                rr = rng.random()
                if rr < 0.4:
                    ops.append({"op": "restart", "e": e})
                elif rr < 0.8:
                    ops.append({"op": "process", "e": e})
            else:
                ops.append({"op": "process", "e": e})
        tr = {"arm": arm, "config": sp, "ops": ops}
        if rng.random() < 0.03:
            tr["debugging"] = True
        yield tr

    def _inputs(self, rng, sp, e, vector_ok) -> dict:
        k = rng.choice([1, 1, 1, 2, 4]) if vector_ok else 1
        if vector_ok and rng.random() < 0.03:
            # an empty batch (eg a filter that selected no row) is a step like any other: it must leave no trace either
            return {"op": "inputs", "e": e, "rows": [], "setter": rng.choice(["vars", "matrix"])}
        if sp.get("flags", {}).get("identity_chain") and k == 1 and rng.random() < 0.6:
            return {"op": "inputs", "e": e, "rows": [S.draw_row(rng, sp, 0.05)], "setter": "np0d"}
        op = {"op": "inputs", "e": e, "rows": [S.draw_row(rng, sp, rng.choice([0.05, 0.2, 0.4])) for _ in range(k)],
              "setter": rng.choice(["vars", "vars", "matrix", "np0d", "npfloat", "pyint", "inplace", "inplace"])}
        if k > 1 and rng.random() < 0.15:
            # the caller feeds two engines from the same array objects (legal: a variable keeps a reference to what it is given)
            op["setter"], op["share"] = "vars", True
        return op

    def _crash_cases(self, rng, sp, vector_ok, tier) -> Iterator[dict]:
        pre = [self._inputs(rng, sp, 0, vector_ok), {"op": "process", "e": 0}]
        if rng.random() < 0.5:
            pre.append({"op": "edit", "e": 0, "edit": EO.gen_edit(rng, sp)})
        post = [self._inputs(rng, sp, 0, vector_ok), {"op": "process", "e": 0, "twice": True}, {"op": "copy", "e": 0, "switch": True},
                self._inputs(rng, sp, 1, vector_ok), {"op": "process", "e": 1}]
        target = rng.choice(["process", "process", "restart", "copy"])
        # count the line events of the target on this engine (dry run)
        try:
            e = S.build(sp)
            for op in pre:
                apply_single(e, op)
            EO.set_inputs(e, post[0]["rows"])
            with LineCrasher(10**9) as lc:
                try:
                    (e.process if target == "process" else e.restart if target == "restart" else e.copy)()
                except Exception:
                    pass
            total = lc.count
        except Exception:
            total = 50
        total = max(total, 1)
        if tier == "thorough" and total <= 6000 and rng.random() < 0.2:
            lines = range(1, total + 1)  # every line of the target (one in five crash runs; the others sample)
        else:
            lines = sorted({1, 2, total, max(1, total - 1)} | {rng.randint(1, total) for _ in range(10)})
        for n in lines:
            yield {"arm": "crash", "config": sp,
                   "ops": pre + [post[0], {"op": "crash", "e": 0, "target": target, "line": n}] + post}

    # ---------------------------------------------------------------- execution
    def execute(self, trace: dict, keep_log: bool = False) -> Outcome:
        out = Outcome()
        st = out.stats
        arm = trace.get("arm", "clean")
        st.hit("arms." + arm)
        sp = trace["config"]
        dig = Digest()
        log = [] if keep_log else None

        def emit(line: str) -> None:
            dig.add(line)
            if log is not None:
                log.append(line)

        if trace.get("debugging"):
            fl.settings.debugging = True
            st.hit("probes.library_debug_mode")
        try:
            e0, s0 = S.build(sp), S.build(sp)
        except Exception as ex:
            st.hit("outcomes.build_failed")
            emit(f"BUILD-FAILED {type(ex).__name__}")
            out.digest, out.log = dig.hex(), log
            return out
        live = [Live(e0, s0, copy.deepcopy(sp), copy.deepcopy(sp), [], 0)]
        sharing: set[int] = set()  # ids of Live objects whose input arrays are (also) another engine's
        for _cls in S.classes_of(sp):
            st.hit("classes." + _cls)
        live[0].cached = EO.snapshot(e0)
        if sp.get("flags", {}).get("example"):
            st.hit("probes.shipped_example_engine")
        if sp.get("flags", {}).get("identity_chain"):
            st.hit("probes.identity_term_chain")
        has_ref_terms = any(t["cls"] in ("Linear", "Function") for v in sp["inputs"] + sp["outputs"] for t in v["terms"])
        fam = "".join(sorted({o["family"][0] for o in sp["outputs"]})) + "".join(sorted({(b["activation"] or {"cls": "-"})["cls"][0] for b in sp["blocks"]}))
        grams: set[str] = set()
        hist: list[str] = []
        pending_inputs: dict[int, bool] = {}
        last_rows_k: dict[int, int] = {}
        edited_since: dict[int, int] = {}
        interesting = False
        seen_epoch = False
        toggled: dict[int, list] = {}

        def viol(oracle: str, i: int, **d) -> Violation:
            return Violation(oracle, i, **d)

        def after_restart(L: Live, i: int, why: str):
            p = EO.restart_problem(L.engine)
            if p:
                return viol("restart_left_state_behind", i, problem=p, after=why)
            for b_ in L.spec_now["blocks"]:
                for r_ in b_["rules"]:
                    r_.pop("unloaded", None)  # restart reloads every rule
            L.spec_restart = copy.deepcopy(L.spec_now)
            L.log = []
            L.shadow = S.build(L.spec_now)
            L.restarted = True
            d = EO.snap_diff(EO.snapshot(L.engine, flags=False), EO.snapshot(L.shadow, flags=False))
            if d:
                return viol("restarted_engine_differs_from_fresh_build", i, diff=d, after=why)
            if EO.stale_rule_flags(L.engine):
                st.hit("outcomes.rule_flags_survive_restart")
            return None

        for i, op in enumerate(trace["ops"]):
            st.hit("ops")
            k = op["op"]
            idx = op["e"] % len(live)
            L = live[idx]
            role = "o" if L.depth == 0 else ("c" if L.depth == 1 else "k")
            hist.append(k[0:3] + role)
            if len(hist) >= 3:
                grams.add("".join(hist[-3:]))
            v = None
            if k in ("inputs", "process", "abort", "edit", "toggle"):
                if k == "inputs":
                    if op.get("setter") == "inplace" and id(L) in sharing:
                        # this engine's input arrays are also another engine's: a caller who refilled them in place would change
                        # both engines himself; he hands over new arrays instead
                        op = dict(op, setter="vars")
                    sharing.discard(id(L))
                    pending_inputs[idx] = True
                    kk = len(op["rows"])
                    if last_rows_k.get(idx, 1) > 1 and kk == 1:
                        st.hit("probes.batch_then_scalar_same_engine")
                    last_rows_k[idx] = kk
                    if kk == 0:
                        st.hit("probes.empty_batch")
                if k in ("edit", "toggle"):
                    if k == "edit":
                        EO.apply_edit_spec(L.spec_now, op["edit"])
                        if op["edit"]["t"] in ("discrete_cell", "linear_coeff", "function_var"):
                            st.hit("probes.inplace_container_edit")
                        if op["edit"]["t"] == "unload_rule":
                            st.hit("probes.rule_unloaded_by_the_user")
                        if L.depth > 0:
                            edited_since[idx] = i
                    else:
                        EO.toggle_spec(L.spec_now, op["path"])
                        t = toggled.setdefault(idx, [])
                        t.append((i, tuple(op["path"])))
                if k in ("process", "abort"):
                    if any(j != idx and pend for j, pend in pending_inputs.items()):
                        st.hit("probes.process_other_between_inputs_and_process")
                    pending_inputs[idx] = False
                    if L.depth == 0 and any(live[j].depth > 0 and j in edited_since for j in range(len(live))):
                        st.hit("probes.edit_copy_then_process_original")
                    t = toggled.get(idx, [])
                    if len(t) >= 2 and t[-1][1] == t[-2][1] and len(hist) >= 4 and hist[-2][:3] == "tog" and hist[-3][:3] == "pro" and hist[-4][:3] == "tog":
                        st.hit("probes.toggle_process_restore_process")
                inputs_before = [EO.cv(iv.value) for iv in L.engine.input_variables] if k in ("process", "abort") else None
                held_before = ([EO.cv(iv.value) for iv in L.engine.input_variables],
                               [(EO.cv(ov.value), EO.fx(ov.previous_value), len(ov.fuzzy.terms)) for ov in L.engine.output_variables]) if k == "toggle" else None
                r_real = apply_single(L.engine, op)
                r_shadow = apply_single(L.shadow, op)
                L.log.append(op)
                if k == "edit" and op["edit"]["t"] == "gain0":
                    # the parameter of the user-defined function element is process-global (like the factory it is registered
                    # in): the edit is an event in every engine's history
                    st.hit("probes.user_function_element_parameter_edited")
                    for j, other in enumerate(live):
                        if j != idx:
                            EO.apply_edit_spec(other.spec_now, op["edit"])
                            other.log.append(op)
                if inputs_before is not None and not (k == "abort" and op["inj"]["kind"] == "vector"):
                    # "the outputs of a step depend only on the input values of that step" presupposes that the step
                    # does not rewrite them (aliasing of a caller-supplied mutable scalar / array)
                    if [EO.cv(iv.value) for iv in L.engine.input_variables] != inputs_before:
                        v = viol("process_changed_the_input_values", i, role=role, before=str(inputs_before)[:200],
                                 after=str([EO.cv(iv.value) for iv in L.engine.input_variables])[:200])
                if held_before is not None and v is None:
                    # an enabled flag is configuration: flipping it (and flipping it back) must leave the values the engine holds
                    # alone, or the toggle-and-restore pair is an earlier step that leaves a trace
                    held_after = ([EO.cv(iv.value) for iv in L.engine.input_variables],
                                  [(EO.cv(ov.value), EO.fx(ov.previous_value), len(ov.fuzzy.terms)) for ov in L.engine.output_variables])
                    if held_after != held_before:
                        v = viol("toggle_changed_held_values", i, role=role, path=str(op["path"]), before=str(held_before)[:200], after=str(held_after)[:200])
                if k == "abort":
                    exc, fired = r_real
                    if exc is not None:
                        st.hit(f"faults.{op['inj']['kind']}_{exc}")
                        if any(bool(np.any(r.triggered)) for b in L.engine.rule_blocks for r in b.rules):
                            st.hit("probes.abort_with_rule_already_triggered")
                    else:
                        st.hit("outcomes.injector_did_not_fire")
                    r_real, r_shadow = exc, r_shadow[0]
                if k in ("process", "abort"):
                    st.hit("outcomes.processed" if r_real is None else "outcomes.process_raised_" + str(r_real))
                    if seen_epoch:
                        interesting = True
                if v is not None:
                    pass
                elif r_real != r_shadow:
                    v = viol("engine_and_fresh_twin_disagree_on_exception", i, engine=str(r_real), twin=str(r_shadow), role=role, opkind=k)
                else:
                    d = EO.snap_diff(EO.snapshot(L.engine, flags=False), EO.snapshot(L.shadow, flags=False))
                    if d:
                        v = viol("engine_state_differs_from_fresh_twin", i, diff=d, role=role, opkind=k, restarted=L.restarted)
                    elif EO.snapshot(L.engine) != EO.snapshot(L.shadow):
                        st.hit("outcomes.rule_flags_differ_from_fresh_twin")
                if v is None and k == "process" and r_real is None and eligible_history_free(L.spec_now):
                    # oracle 1: outputs depend only on the inputs of this step
                    fresh = S.build(L.spec_now)
                    for fv, iv in zip(fresh.input_variables, L.engine.input_variables):
                        fv._value = np.copy(iv.value)
                    f_exc = EO.process_with(fresh, None)[0]
                    st.hit("probes.history_free_checked")
                    if f_exc is not None:
                        v = viol("fresh_twin_raises_where_engine_does_not", i, twin=f_exc)
                    elif EO.outputs_of(fresh) != EO.outputs_of(L.engine):
                        v = viol("outputs_depend_on_history", i, role=role, engine=str(EO.outputs_of(L.engine))[:300],
                                 fresh=str(EO.outputs_of(fresh))[:300])
                    elif op.get("twice"):
                        first = EO.outputs_of(L.engine)
                        apply_single(L.engine, op)
                        apply_single(L.shadow, op)
                        st.hit("probes.idempotence_checked")
                        if EO.outputs_of(L.engine) != first:
                            v = viol("processing_twice_gives_different_outputs", i, role=role)
                elif v is None and k == "process" and r_real is not None and eligible_history_free(L.spec_now):
                    # the same oracle for a step that raised: with lock-previous off, whether a step raises depends only on
                    # the configuration and the inputs of that step - a freshly built engine given the same inputs raises too
                    fresh = S.build(L.spec_now)
                    for fv, iv in zip(fresh.input_variables, L.engine.input_variables):
                        fv._value = np.copy(iv.value)
                    f_exc = EO.process_with(fresh, None)[0]
                    st.hit("probes.history_free_checked_on_a_raising_step")
                    if f_exc is None:
                        v = viol("step_raises_because_of_history", i, role=role, exception=str(r_real),
                                 inputs=str([EO.cv(iv.value) for iv in L.engine.input_variables])[:200])
                    elif op.get("twice"):
                        apply_single(L.engine, op)
                        apply_single(L.shadow, op)
                elif v is None and k == "process" and op.get("twice"):
                    apply_single(L.engine, op)
                    apply_single(L.shadow, op)
                emit(f"{i} {k} e{idx}{role} -> {r_real} " + (";".join(",".join(x[1]) for x in EO.outputs_of(L.engine)) if k in ("process", "abort") else ""))
            elif k in ("restart", "replace_term"):
                seen_epoch = True
                if k == "replace_term":
                    EO.apply_replace_term_spec(L.spec_now, op)
                    EO.apply_replace_term(L.engine, op, L.spec_now)
                    st.hit("probes.replace_term_and_restart")
                if hist[-2:-1] and hist[-2][:3] == "abo":
                    st.hit("probes.restart_after_abort")
                try:
                    L.engine.restart()
                except Exception as ex:
                    v = viol("restart_raised", i, exception=type(ex).__name__, message=str(ex)[:200])
                if v is None:
                    v = after_restart(L, i, k)
                emit(f"{i} {k} e{idx}{role}")
            elif k == "copy":
                seen_epoch = True
                src_before = L.cached
                try:
                    c = L.engine.copy()
                except Exception as ex:
                    longest = max((len(r.antecedent.text.split()) for b in L.engine.rule_blocks for r in b.rules), default=0)
                    v = viol("copy_raised", i, exception=type(ex).__name__, message=str(ex)[:200] if not isinstance(ex, RecursionError) else "",
                             long_rule=longest > 400)
                    c = None
                if c is not None:
                    src_after = EO.snapshot(L.engine)
                    csnap = EO.snapshot(c)
                    if src_after != src_before:
                        v = viol("copy_changed_the_source", i, diff=EO.snap_diff(src_before, src_after))
                    elif EO.snapshot(c, flags=False) != EO.snapshot(L.engine, flags=False):
                        v = viol("copy_differs_from_source", i, diff=EO.snap_diff(EO.snapshot(L.engine, flags=False), EO.snapshot(c, flags=False)))
                    else:
                        p = EO.graph_problem(c)
                        if p:
                            v = viol("copy_references_objects_outside_itself", i, problem=p)
                        else:
                            sh = EO.shared_objects(c, L.engine)
                            if sh:
                                v = viol("copy_shares_objects_with_source", i, problem=sh)
                    new = Live(c, replayed(L.spec_restart, L.log), copy.deepcopy(L.spec_restart), copy.deepcopy(L.spec_now),
                               list(L.log), L.depth + 1)
                    new.restarted = L.restarted
                    if v is None:
                        d = EO.snap_diff(EO.snapshot(c, flags=False), EO.snapshot(new.shadow, flags=False))
                        if d:
                            v = viol("copy_differs_from_fresh_replay", i, diff=d)
                    new.cached = csnap
                    if new.depth >= 2:
                        st.hit("probes.copy_of_a_copy")
                    if has_ref_terms:
                        st.hit("probes.linear_or_function_engine_copied")
                    if len(live) < MAX_LIVE:
                        live.append(new)
                    else:
                        live[-1] = new
                        for dct in (pending_inputs, last_rows_k, edited_since, toggled):
                            dct.pop(len(live) - 1, None)
                emit(f"{i} copy e{idx}{role} -> e{len(live) - 1}")
            elif k == "crash":
                seen_epoch = True
                target = op["target"]
                fn = L.engine.process if target == "process" else L.engine.restart if target == "restart" else L.engine.copy
                crashed = False
                where = ""
                other_exc = None
                with LineCrasher(op["line"]) as lc:
                    try:
                        fn()
                    except SimCrash:
                        crashed = True
                    except Exception as ex:
                        other_exc = type(ex).__name__
                where = lc.where
                if crashed:
                    st.hit("faults.line_crash_in_" + target)
                    if "reload_rules" in where or "load_rules" in where or where.endswith(":load") or "unload" in where:
                        st.hit("probes.crash_inside_reload_rules")
                else:
                    st.hit("outcomes.crash_line_beyond_end")
                emit(f"{i} crash {target} line={op['line']} crashed={crashed} at={where} exc={other_exc}")
                if target == "copy":
                    st.hit("probes.copy_crashed")
                    d = EO.snap_diff(L.cached, EO.snapshot(L.engine))
                    if d:
                        v = viol("copy_changed_the_source", i, diff=d, crashed=crashed, at=where)
                else:
                    try:
                        L.engine.restart()
                    except Exception as ex:
                        v = viol("restart_raised", i, exception=type(ex).__name__, message=str(ex)[:200], after_crash_at=where)
                    if v is None:
                        st.hit("probes.restart_after_crash")
                        v = after_restart(L, i, f"crash in {target} at {where}")
            else:
                raise AssertionError(k)
            # frame condition: no other live engine changed
            if v is None:
                for j, other in enumerate(live):
                    if other is L or other.cached is None:
                        continue
                    if k == "copy" and j == len(live) - 1:
                        continue
                    now = EO.snapshot(other.engine)
                    if now != other.cached:
                        v = viol("operation_changed_another_engine", i, opkind=k, on=f"e{idx}{role}", changed=f"e{j}",
                                 diff=EO.snap_diff(other.cached, now), edit=str(op.get("edit", op.get("path", "")))[:160])
                        break
                L.cached = EO.snapshot(L.engine)
                if k == "inputs" and op.get("share") and len(live) > 1:
                    O = live[(idx + 1) % len(live)]
                    if (len(O.engine.input_variables) == len(L.engine.input_variables)
                            and not any(iv.lock_range for iv in list(O.engine.input_variables) + list(L.engine.input_variables))
                            and all(isinstance(iv.value, np.ndarray) for iv in L.engine.input_variables)):
                        plain = {kk: vv for kk, vv in op.items() if kk != "share"}
                        for ov_, iv_ in zip(O.engine.input_variables, L.engine.input_variables):
                            ov_.value = iv_.value  # the very same array objects
                        apply_single(O.shadow, plain)
                        O.log.append(plain)
                        O.cached = EO.snapshot(O.engine)
                        sharing.update((id(L), id(O)))
                        st.hit("probes.two_engines_fed_from_the_same_arrays")
            if v is not None:
                out.violation = v
                break
        out.nontrivial = interesting
        out.signature = fam + "|" + ",".join(sorted(grams))
        out.digest = dig.hex()
        out.log = log
        return out

    # ---------------------------------------------------------------- shrinking
    def shrink_passes(self):
        return [self._shrink_spec, self._shrink_ops]

    def _shrink_spec(self, trace: dict) -> Iterator[dict]:
        for s in S.simplify_spec_candidates(trace["config"]):
            c = dict(trace)
            c["config"] = s
            yield c

    def _shrink_ops(self, trace: dict) -> Iterator[dict]:
        for i, op in enumerate(trace["ops"]):
            if op["op"] == "inputs" and len(op["rows"]) > 1:
                c = copy.deepcopy(trace)
                c["ops"][i]["rows"] = op["rows"][:1]
                yield c
            if op["op"] == "process" and op.get("twice"):
                c = copy.deepcopy(trace)
                c["ops"][i]["twice"] = False
                yield c
            if op["op"] == "abort":
                c = copy.deepcopy(trace)
                c["ops"][i] = {"op": "process", "e": op["e"]}
                yield c
            if op["e"] != 0:
                c = copy.deepcopy(trace)
                c["ops"][i]["e"] = 0
                yield c
            if op["op"] == "inputs" and op["rows"]:
                for j, val in enumerate(op["rows"][0]):
                    if val != 0.5:
                        c = copy.deepcopy(trace)
                        c["ops"][i]["rows"][0][j] = 0.5
                        yield c


SIM = C13()
