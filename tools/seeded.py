#!/venv/bin/python
"""Confirm a sub-agent's seeded change and run the checks against it.

usage: seeded.py <src_dir> <seed_id> <pid> [--checks C02,C12] [--runs N]
  src_dir holds patch.diff, demo.py, notes.md (written by the sub-agent, which saw only the property text).
Steps: (1) scratch worktree: patch applies, pinned suite passes, demo fails with / passes without the change;
       (2) git -C /repo apply, run the quick checks, git -C /repo checkout -- .  (always undone);
       (3) write /verif/seeded/<seed_id>/{patch.diff,demo.py,notes.md,meta.json}.
"""
import argparse
import json
import os
import shutil
import subprocess
import sys

PY = "/venv/bin/python"
VERIF = os.path.dirname(os.path.dirname(os.path.abspath(__file__)))
WT = "/tmp/wt-verify"
TESTS = [PY, "-m", "pytest", "-q", "-p", "no:cacheprovider", "--timeout=900",
         "--deselect", "tests/test_benchmark.py::TestBenchmark::test_measure",
         "--deselect", "tests/test_exporter.py::TestPythonExporter::test_object", "tests"]


def sh(cmd, **kw):
    return subprocess.run(cmd, capture_output=True, text=True, **kw)


def main():
    ap = argparse.ArgumentParser()
    ap.add_argument("src")
    ap.add_argument("seed_id")
    ap.add_argument("pid")
    ap.add_argument("--checks")
    ap.add_argument("--runs", type=int)
    ap.add_argument("--skip-confirm", action="store_true")
    ap.add_argument("--needs", default="")
    a = ap.parse_args()
    patch = os.path.abspath(os.path.join(a.src, "patch.diff"))
    demo = os.path.abspath(os.path.join(a.src, "demo.py"))
    meta = {"seed_id": a.seed_id, "breaks_property": a.pid, "source": "fresh sub-agent given only the property text and a scratch worktree",
            "needs_to_manifest": a.needs}
    old_meta = os.path.join(VERIF, "seeded", a.seed_id, "meta.json")
    if os.path.exists(old_meta):  # keep what an earlier (confirming) run recorded
        prev = json.load(open(old_meta))
        for k_ in ("demo_clean_rc", "patch_applies", "demo_patched_rc", "demo_patched_tail", "tests_patched", "tests_pass", "confirmed",
                   "missed_before_strengthening"):
            if k_ in prev:
                meta[k_] = prev[k_]
        if not a.needs and prev.get("needs_to_manifest"):
            meta["needs_to_manifest"] = prev["needs_to_manifest"]
    if not a.skip_confirm:
        if not os.path.exists(WT):
            assert sh(["git", "-C", "/repo", "worktree", "add", "-q", "--detach", WT, "HEAD"]).returncode == 0
        sh(["git", "-C", WT, "checkout", "-q", "--detach", sh(["git", "-C", "/repo", "rev-parse", "HEAD"]).stdout.strip()])
        sh(["git", "-C", WT, "checkout", "--", "."])
        env = dict(os.environ, PYTHONPATH=WT)
        r = sh([PY, demo], env=env, cwd=WT)
        meta["demo_clean_rc"] = r.returncode
        ap_ = sh(["git", "-C", WT, "apply", patch])
        meta["patch_applies"] = ap_.returncode == 0
        if ap_.returncode != 0:
            print("PATCH DOES NOT APPLY", ap_.stderr)
            return 1
        r = sh([PY, demo], env=env, cwd=WT)
        meta["demo_patched_rc"] = r.returncode
        meta["demo_patched_tail"] = (r.stdout + r.stderr).strip()[-300:]
        t = sh(TESTS, env=env, cwd=WT)
        meta["tests_patched"] = t.stdout.strip().splitlines()[-1] if t.stdout.strip() else f"rc={t.returncode}"
        meta["tests_pass"] = t.returncode == 0
        sh(["git", "-C", WT, "checkout", "--", "."])
        print("confirm:", {k: meta[k] for k in ("demo_clean_rc", "demo_patched_rc", "tests_patched")})
        meta["confirmed"] = meta["demo_clean_rc"] == 0 and meta["demo_patched_rc"] != 0 and meta["tests_pass"]
    checks = (a.checks or a.pid).split(",")
    st = sh(["git", "-C", "/repo", "status", "--porcelain", "--untracked-files=no"])
    assert st.stdout.strip() == "", "/repo is not clean: " + st.stdout
    results = {}
    try:
        assert sh(["git", "-C", "/repo", "apply", patch]).returncode == 0
        for c in checks:
            cmd = [PY, os.path.join(VERIF, "check.py"), c, "--no-evidence"] + (["--runs", str(a.runs)] if a.runs else [])
            r = sh(cmd, env=dict(os.environ, PYTHONHASHSEED="0"))
            lines = [ln for ln in r.stdout.splitlines() if ln.startswith("VIOLATION")]
            oracles = [ln.rsplit("-", 1)[-1].replace(".json", "") for ln in lines]
            rep = ""
            if lines:
                path = lines[0].split("replay=")[1].strip()
                rr = sh([PY, os.path.join(VERIF, "check.py"), c, "--replay", path], env=dict(os.environ, PYTHONHASHSEED="5"))
                rep = "replay reproduced" if (rr.returncode == 1 and "reproduced" in rr.stdout) else f"REPLAY rc={rr.returncode}"
                keep = os.path.join(VERIF, "seeded", a.seed_id)
                os.makedirs(keep, exist_ok=True)
                shutil.copy(path, os.path.join(keep, f"replay-{c}.json"))
            results[c] = {"rc": r.returncode, "oracles": oracles, "replay": rep,
                          "summary": [ln for ln in r.stdout.splitlines() if ln.startswith("[")][-1:] }
            print(c, results[c])
    finally:
        sh(["git", "-C", "/repo", "checkout", "--", "."])
    meta["checks_run"] = results
    meta["caught_by"] = [c for c, v in results.items() if v["rc"] == 1]
    keep = os.path.join(VERIF, "seeded", a.seed_id)
    os.makedirs(keep, exist_ok=True)
    for f in ("patch.diff", "demo.py", "notes.md"):
        if os.path.exists(os.path.join(a.src, f)):
            shutil.copy(os.path.join(a.src, f), keep)
    json.dump(meta, open(os.path.join(keep, "meta.json"), "w"), indent=1)
    return 0


if __name__ == "__main__":
    sys.exit(main())
