#!/venv/bin/python
"""Generate /verif/MANIFEST.json (kept valid at all times; run after changing what is claimed)."""
import json
import os
import sys

HERE = os.path.dirname(os.path.dirname(os.path.abspath(__file__)))
PY = "/venv/bin/python"

NA = {
    "C01": "pure function of (engine configuration, input row): no history, fault, schedule or I/O in its truth; the one history-dependent mechanism it relies on (fuzzy outputs cleared before each step) is decided under C13",
    "C03": "Term.membership(x) is a pure numeric function of parameters and x; nothing for a simulator to schedule or fail",
    "C04": "Norm.compute(a,b) is a pure stateless function; input-space property, not a simulation target",
    "C05": "Hedge.hedge(x) is a pure stateless function; input-space property, not a simulation target",
    "C06": "activation degree is a pure function of rule text, operators, weight and current inputs; the parser keeps no state between calls",
    "C07": "what one trigger() appends is a pure function of consequent, degree and flags; the known hedge-leak defect is intra-call data flow, not history/fault/schedule",
    "C08": "rule selection is a pure function of the degree vector and method parameters (every method deactivates all rules first, so no earlier activation is visible)",
    "C09": "integral defuzzifiers are pure numeric functions of a sampled fuzzy set",
    "C10": "weighted defuzzifiers are pure numeric functions of an activation multiset",
    "C11": "Tsukamoto inverses are pure numeric functions of (term parameters, y)",
    "C14": "export->import->export is a pure function of engine and settings; the file seam is one whole-buffer write/read with no partial-failure semantics (damaged documents are C16's clause, claimed there)",
    "C15": "Python export/eval round trip is a pure function of engine and settings; no state, fault or interleaving in its truth",
    "C17": "parsing and evaluating a formula is a pure function of text and variable values",
    "C18": "a dataset is a pure function of engine configuration and grid request/reader text; streams are passive and the property says nothing about failing streams",
    "C19": "relates two pure functions of the configuration (is_ready vs. whether process() raises); no history, fault or schedule dimension",
}

CHECKS = {
    "C02": dict(
        cat="exploration", design="4.2", technique="deterministic simulation: seeded replica-agreement (batch replica vs row-by-row replica) over random segmentations, with exception-parity oracle",
        text="Seeded search over generated and shipped engines x row streams x segmentations x setter kinds (per-variable arrays, matrix, 1-d, 0-d, in-place refills, integer / float32 / mixed-type / strided / read-only batches, batches beyond 8192 rows, engines with up to 12 inputs, user-defined terms / norms / hedges / defuzzifiers); two real engines fed the same log under different segmentation must agree row for row (values, fuzzy values, Engine.output_values) and on raising. Sampling, not proof: a clean run is evidence that no segmentation-, carry- or mode-dependent divergence exists among the cases explored.",
        note="Trusted: NumPy, the spec builder (public constructors only). Function terms reading output values are excluded. Values and fuzzy values are compared bit for bit (canonical floats: NaN == NaN, -0.0 == 0.0). Quantifier as given: engines using the General activation method (and user subclasses of it), batches of 1..N rows."),
    "C12": dict(
        cat="fault_enumeration", design="4.1", technique="deterministic simulation: state-machine histories vs executable reference model, all cuts of sampled row sequences, defuzzifier failure of every kind enumerated at every position",
        text="A 15-line reference model of the cascade is compared after every op with a real OutputVariable (stub defuzzifier) and with whole engines (real defuzzifiers, cascade-free twin for raw values). For every sampled history all single-failure positions x 8 exception kinds are enumerated, and for every sampled row sequence all 2^(L-1) cuts; histories themselves are sampled by seed.",
        note="Trusted: the reference model (written from the property statement), NumPy. +-inf are treated as values, not NaN. The stub defuzzifier also answers in float32 (judged within float32 resolution, previous value exactly), with integers / bools, with empty arrays, and the run may continue on a deepcopy / pickle copy of the variable."),
    "C13": dict(
        cat="exploration", design="4.3", technique="deterministic simulation: seeded operation interleaving over an engine and its copies, lockstep fresh-built shadows, frame conditions, aborted operations and line-level crash + restart",
        text="The scheduler chooses the next operation and the engine instance it addresses; every live engine is compared after every op with a shadow built fresh from the spec (never by copy/restart), with a history-free twin given only the current inputs, and every other live engine must be unchanged. Faults: failing components, missing operators, FP traps, sys.settrace crashes inside process/restart/copy followed by restart. Sampling, not proof.",
        note="Trusted: the spec builder and the dual (object/spec) edit functions. Only enabled outputs compared against the history-free twin; engines with Function terms reading output values excluded from the history-free and idempotence oracles only."),
    "C16": dict(
        cat="exploration", design="4.5", technique="deterministic simulation: rule life-cycle state machine with corrupted texts + stored-document fault injection (torn, lost, duplicated, reordered, substituted tokens) through the real file seam",
        text="Decides the failure-atomicity clause (no rule reports loaded after a failed load, whatever it held before; other rules untouched) and the stored-document clause (a damaged FLL document is rejected cleanly or accepted, never crashed on) by seeded search; the 'all texts' reading is sampled, not decided.",
        note="Trusted: the grammar-directed rule generator and the outcome classifier (SyntaxError/ValueError/KeyError = rejection; RuntimeError only from RuleBlock.load_rules)."),
    "C20": dict(
        cat="fault_enumeration", design="4.4", technique="deterministic simulation: generated nested-context programs vs stack-of-frames model, crash-point enumeration (every statement position x exception kind x catch level) plus line-level crashes in library helpers",
        text="Every raise-free base program of the enumeration arm is re-run with an exception of each of 8 kinds at every dynamic statement position and every enclosing catch level; settings are compared with the model after every statement and helpers are observed inside and outside contexts. Programs themselves are sampled by seed.",
        note="Trusted: the model (enter saves+sets named keys, any exit restores exactly them), Python's with statement. Asynchronous exceptions inside Settings.context's own enter/exit code are out of scope."),
}


def main(claimed):
    checks = []
    for pid in claimed:
        c = CHECKS[pid]
        checks.append({
            "property_id": pid,
            "quick_cmd": f"{PY} /verif/check.py {pid} --tier quick",
            "thorough_cmd": f"{PY} /verif/check.py {pid} --tier thorough",
            "evidence_file": f"/verif/evidence/{pid}.json",
            "replay_cmd_template": f"{PY} /verif/check.py {pid} --replay {{path}}",
            "engine": "simkit",
            "level_claimed": {"category": c["cat"], "text": c["text"], "design_ref": "DESIGN.md section " + c["design"]},
            "level_note": c["note"],
            "technique": c["technique"],
        })
    na = [{"property_id": k, "reason": v} for k, v in NA.items()]
    for pid in CHECKS:
        if pid not in claimed:
            na.append({"property_id": pid, "reason": "claimed in DESIGN.md; check under construction, not yet registered"})
    m = {
        "version": 1,
        "setup_cmd": PY + " -c \"import sys; sys.path.insert(0,'/repo'); import fuzzylite, numpy; print('ok', fuzzylite.__file__)\"",
        "hooks": {
            "guard": "FUZZYLITE_PYFUZZYLITE_VERIF",
            "enable": "no source hooks are needed: every seam is a public extension point, a plain attribute or sys.settrace; the guard name is reserved and unused",
            "baseline_off_cmd": "cd /repo && /venv/bin/python -m pytest -ra -q -p no:cacheprovider --timeout=900 --continue-on-collection-errors",
            "source_commits": [],
            "add_only": True,
        },
        "engines": [{"name": "simkit", "path": "/verif/simkit", "serves_properties": claimed,
                     "kind_free_text": "deterministic simulator: seeded trace generator, runners with reference models / fresh twins, fault injectors (faulty component subclasses, None operators, FP traps, sys.settrace line crashes, torn/corrupted documents), pristine-process shrinker, exact replay"}],
        "checks": checks,
        "notes": "Technique family: deterministic simulation with fault injection (DESIGN.md; section 9 is the as-built record). check.py exit codes: 0 held, 1 violation (+VIOLATION line), 2 harness error/timeout, 3 replay mismatch. Honours VERIF_SEED, VERIF_TIER, VERIF_REPO. No source hooks in /repo; ten unguarded 'fix:' commits (D1-D10) repair genuine defects the checks found (known_findings.json lists them as fixed); two genuine defects with one root (recursion over the expression tree of a very long rule) are recorded as open known findings instead - F1 (C16: evaluating a rule of about a thousand chained propositions raises RecursionError) and F2 (C13: Engine.copy() raises RecursionError from about 250) - and are reported as KNOWN-FINDING lines with exit 0. Self-tests: selftest/determinism.py, selftest/sensitivity.py (59 mutants incl. 4 silent controls and the reverts of D1-D10), selftest/known_findings_test.py; tools/reseed.py re-runs the 205 sub-agent changes (15 rounds) kept under seeded/.",
        "not_applicable": na,
    }
    with open(os.path.join(HERE, "MANIFEST.json"), "w") as f:
        json.dump(m, f, indent=1)


if __name__ == "__main__":
    main(sys.argv[1:] or sorted(CHECKS))
