#!/venv/bin/python
"""Measure reach: which lines of /repo/fuzzylite the workload of a simulation executes.
usage: reach.py Cxx [runs]   -> per-file executed/executable line counts and the unexecuted line ranges of the anchor files.
In-process (no fork), sys.settrace line collector restricted to fuzzylite sources; slow, run on demand."""
import dis
import os
import sys

HERE = os.path.dirname(os.path.dirname(os.path.abspath(__file__)))
sys.path.insert(0, HERE)
os.environ.setdefault("PYTHONHASHSEED", "0")
from simkit import env  # noqa: E402
from simkit.rng import run_rng  # noqa: E402
import importlib  # noqa: E402

ANCHORS = {
    "C02": ["variable.py", "engine.py", "defuzzifier.py", "activation.py", "library.py", "hedge.py", "norm.py"],
    "C12": ["variable.py"],
    "C13": ["engine.py", "variable.py", "rule.py"],
    "C16": ["rule.py", "importer.py"],
    "C20": ["library.py", "operation.py"],
}


def executable_lines(path):
    src = open(path).read()
    code = compile(src, path, "exec")
    lines = set()
    stack = [code]
    while stack:
        c = stack.pop()
        for _, ln in dis.findlinestarts(c):
            if ln:
                lines.add(ln)
        for k in c.co_consts:
            if hasattr(k, "co_code"):
                stack.append(k)
    return lines


def main():
    pid = sys.argv[1]
    runs = int(sys.argv[2]) if len(sys.argv) > 2 else 300
    mods = {"C02": "sims.c02_replicas", "C12": "sims.c12_cascade", "C13": "sims.c13_lifecycle", "C16": "sims.c16_corruption", "C20": "sims.c20_contexts"}
    sim = importlib.import_module(mods[pid]).SIM
    sim.prepare()
    hit = {}

    def local(frame, event, arg):
        if event == "line":
            hit.setdefault(frame.f_code.co_filename, set()).add(frame.f_lineno)
        return local

    def glob(frame, event, arg):
        if frame.f_code.co_filename.startswith(env.FL_DIR) and "/examples/" not in frame.f_code.co_filename:
            return local
        return None

    for run in range(runs):
        rng = run_rng(0, sim.pid, run)
        for n, trace in enumerate(sim.cases(rng, run, "quick")):
            if n > 40:
                break
            env.reset_settings()
            sys.settrace(glob)
            try:
                sim.execute(trace)
            finally:
                sys.settrace(None)
    print(f"reach of {pid} workload over {runs} run indices")
    for fn in sorted(os.listdir(env.FL_DIR)):
        if not fn.endswith(".py"):
            continue
        path = os.path.join(env.FL_DIR, fn)
        ex = executable_lines(path)
        h = hit.get(path, set()) & ex
        mark = "*" if fn in ANCHORS[pid] else " "
        print(f" {mark} {fn:<16} {len(h):5d}/{len(ex):5d}  {100 * len(h) / max(1, len(ex)):5.1f}%")
        if fn in ANCHORS[pid]:
            miss = sorted(ex - h)
            ranges, start, prev = [], None, None
            for ln in miss:
                if start is None:
                    start = prev = ln
                elif ln <= prev + 3:
                    prev = ln
                else:
                    ranges.append((start, prev))
                    start = prev = ln
            if start is not None:
                ranges.append((start, prev))
            print("      not executed:", ", ".join(f"{a}" if a == b else f"{a}-{b}" for a, b in ranges)[:900])


if __name__ == "__main__":
    main()
