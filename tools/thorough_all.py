#!/venv/bin/python
"""Run the thorough tier of every claimed check in sequence (for `vp run --with-repo`); prints each summary line."""
import os
import subprocess
import sys
import time

HERE = os.path.dirname(os.path.dirname(os.path.abspath(__file__)))
env = dict(os.environ)
if os.environ.get("VP_RUN_REPO") and not os.environ.get("VERIF_REPO"):
    env["VERIF_REPO"] = os.environ["VP_RUN_REPO"]
seed = sys.argv[1] if len(sys.argv) > 1 else "0"
bad = 0
for pid in ["C20", "C12", "C16", "C02", "C13"]:
    t0 = time.time()
    r = subprocess.run(["/venv/bin/python", os.path.join(HERE, "check.py"), pid, "--tier", "thorough", "--seed", seed, "--no-evidence"],
                       capture_output=True, text=True, env=env)
    print(f"== {pid} rc={r.returncode} {time.time() - t0:.0f}s\n{r.stdout[-1200:]}\n{r.stderr[-600:]}", flush=True)
    bad += r.returncode != 0
sys.exit(1 if bad else 0)
