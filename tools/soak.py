#!/venv/bin/python
"""Seed soak: run every claimed check's quick tier for a range of VERIF_SEED values; report any non-zero exit.
usage: soak.py FIRST LAST [pids...]   (evidence files are not written; replay files of alarms are kept under out/)"""
import os
import subprocess
import sys
import time

HERE = os.path.dirname(os.path.dirname(os.path.abspath(__file__)))
first, last = int(sys.argv[1]), int(sys.argv[2])
pids = sys.argv[3:] or ["C02", "C12", "C13", "C16", "C20"]
base_env = dict(os.environ)
if os.environ.get("VP_RUN_REPO") and not os.environ.get("VERIF_REPO"):
    base_env["VERIF_REPO"] = os.environ["VP_RUN_REPO"]  # vp run --with-repo: a snapshot of /repo's HEAD, immune to later edits
bad = 0
t0 = time.time()
for seed in range(first, last + 1):
    for pid in pids:
        r = subprocess.run(["/venv/bin/python", os.path.join(HERE, "check.py"), pid, "--seed", str(seed), "--no-evidence"],
                           capture_output=True, text=True, env=dict(base_env, PYTHONHASHSEED=str(seed % 7)))
        if r.returncode != 0:
            bad += 1
            print(f"ALARM seed={seed} {pid} rc={r.returncode}\n{r.stdout[-1500:]}\n{r.stderr[-1500:]}", flush=True)
    print(f"seed {seed} done ({time.time() - t0:.0f}s, alarms so far {bad})", flush=True)
print("soak finished: alarms =", bad)
sys.exit(1 if bad else 0)
