#!/venv/bin/python
"""Re-run the quick check of every kept seeded change (seeded/<id>/patch.diff) against /repo (apply, check, undo).
usage: reseed.py [id-substring]"""
import json
import os
import subprocess
import sys

VERIF = os.path.dirname(os.path.dirname(os.path.abspath(__file__)))
only = sys.argv[1] if len(sys.argv) > 1 else ""
bad = 0
for d in sorted(os.listdir(os.path.join(VERIF, "seeded"))):
    if only not in d:
        continue
    meta = json.load(open(os.path.join(VERIF, "seeded", d, "meta.json")))
    if meta.get("obsolete"):
        print(f"skip {d:<10} (obsolete: {meta['needs_to_manifest'][-90:]})", flush=True)
        continue
    pid = meta["breaks_property"]
    assert subprocess.run(["git", "-C", "/repo", "status", "--porcelain", "--untracked-files=no"], capture_output=True, text=True).stdout.strip() == ""
    try:
        assert subprocess.run(["git", "-C", "/repo", "apply", os.path.join(VERIF, "seeded", d, "patch.diff")]).returncode == 0
        r = subprocess.run(["/venv/bin/python", os.path.join(VERIF, "check.py"), pid, "--no-evidence"], capture_output=True, text=True,
                           env=dict(os.environ, PYTHONHASHSEED="0"))
    finally:
        subprocess.run(["git", "-C", "/repo", "checkout", "--", "."])
    oracles = sorted({ln.rsplit("-", 1)[-1].replace(".json", "") for ln in r.stdout.splitlines() if ln.startswith("VIOLATION")})
    ok = r.returncode == 1
    bad += not ok
    print(f"{'ok  ' if ok else 'MISS'} {d:<10} {pid} rc={r.returncode} {','.join(oracles)}", flush=True)
print("reseed:", "all caught" if not bad else f"{bad} missed")
sys.exit(1 if bad else 0)
