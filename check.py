#!/venv/bin/python
"""check.py <Cxx> [--tier quick|thorough] [--replay FILE] [--runs N] [--workers N] [--budget S] [--seed N]

exit 0 = property held on everything explored; exit 1 + `VIOLATION property=<id> replay=<path>`;
exit 2 = harness error / timeout (never success, never a violation); exit 3 = replay did not reproduce.
"""
from __future__ import annotations

import argparse
import importlib
import os
import sys

if os.environ.get("PYTHONHASHSEED") is None:
    # fixed hash seed: not needed for determinism (self-test proves it), but makes that claim cheap to keep
    os.environ["PYTHONHASHSEED"] = "0"
    os.execv(sys.executable, [sys.executable] + sys.argv)

HERE = os.path.dirname(os.path.abspath(__file__))
sys.path.insert(0, HERE)
sys.dont_write_bytecode = True

SIMS = {
    "C02": "sims.c02_replicas",
    "C12": "sims.c12_cascade",
    "C13": "sims.c13_lifecycle",
    "C16": "sims.c16_corruption",
    "C20": "sims.c20_contexts",
}


def load_sim(pid: str):
    from simkit import env  # noqa: F401  (imports fuzzylite from the tree under test)
    return importlib.import_module(SIMS[pid]).SIM


def main() -> int:
    ap = argparse.ArgumentParser()
    ap.add_argument("pid", choices=sorted(SIMS))
    ap.add_argument("--tier", default=os.environ.get("VERIF_TIER", "quick"), choices=["quick", "thorough"])
    ap.add_argument("--seed", type=int, default=int(os.environ.get("VERIF_SEED", "0")))
    ap.add_argument("--runs", type=int)
    ap.add_argument("--workers", type=int)
    ap.add_argument("--budget", type=float)
    ap.add_argument("--replay")
    ap.add_argument("--no-shrink", action="store_true")
    ap.add_argument("--no-evidence", action="store_true")
    ap.add_argument("--keep-going", action="store_true", help="do not stop at the first violation")
    ap.add_argument("--chunk", type=int, help="run indices per forked chunk (default: per simulation)")
    a = ap.parse_args()
    sim = load_sim(a.pid)
    from simkit import pool
    if a.chunk:
        sim.chunk = a.chunk
    if a.replay:
        return pool.replay(sim, a.replay)
    return pool.run_batch(sim, a.tier, a.seed, runs=a.runs, workers=a.workers, budget_s=a.budget,
                          do_shrink=not a.no_shrink, stop_on_violation=not a.keep_going,
                          write_evidence=not a.no_evidence)


if __name__ == "__main__":
    sys.exit(main())
